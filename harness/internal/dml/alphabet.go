package dml

import (
	"fmt"
	"strings"

	"verif/harness/internal/rv"
)

// Initial tables. Files hold text (everything loaded from CSV is a string); the temporary table is filled by
// INSERT VALUES and holds integers. The rows that join sit at different positions in each table.
const (
	FileT    = "a,k,b\n1,k1,x\n2,k2,y\n3,k3,z\n"
	FileU    = "k,w\nk3,30\nk1,10\nk9,90\n"
	StdinCSV = "k,s\nk1,p\nk2,q\n"
	Preamble = "DECLARE tmp VIEW (k, n); INSERT INTO tmp VALUES ('k2', 20), ('k1', 11), ('k4', 4);"
)

func strs(xs ...string) []rv.V {
	r := make([]rv.V, len(xs))
	for i, x := range xs {
		r[i] = rv.S(x)
	}
	return r
}

func Initial() *State {
	return &State{Tabs: []*Table{
		{Name: "t", Kind: File, Cols: []string{"a", "k", "b"}, Rows: [][]rv.V{strs("1", "k1", "x"), strs("2", "k2", "y"), strs("3", "k3", "z")}},
		{Name: "u", Kind: File, Cols: []string{"k", "w"}, Rows: [][]rv.V{strs("k3", "30"), strs("k1", "10"), strs("k9", "90")}},
		{Name: "tmp", Kind: Temp, Cols: []string{"k", "n"}, Rows: [][]rv.V{{rv.S("k2"), rv.I(20)}, {rv.S("k1"), rv.I(11)}, {rv.S("k4"), rv.I(4)}}},
		{Name: "STDIN", Kind: Stdin, Cols: []string{"k", "s"}, Rows: [][]rv.V{strs("k1", "p"), strs("k2", "q")}},
	}}
}

func row(es ...Expr) []Expr { return es }

func single(tab string) []TabRef { return []TabRef{{Tab: tab}} }

func eq(l, r Expr) Expr            { return Cmp{"=", l, r} }
func and(l, r Expr) Expr           { return Logic{"AND", l, r} }
func or(l, r Expr) Expr            { return Logic{"OR", l, r} }
func set(c Col, v Expr) SetItem    { return SetItem{Col: c, Val: v} }
func col(name string) Col          { return Col{Name: name} }
func qcol(tab, name string) Col    { return Col{Tab: tab, Name: name} }
func plus(l Expr, r int64) Expr    { return Arith{'+', l, LI(r)} }
func oneOver(l Expr, k int64) Expr { return Arith{'/', LI(1), Arith{'-', l, LI(k)}} }

// Alphabet returns the statements of the search. The thorough alphabet extends the quick one; IDs are stable.
func Alphabet(thorough bool) []Op {
	tu := []TabRef{{Tab: "t"}, {Tab: "u"}}
	ttmp := []TabRef{{Tab: "t"}, {Tab: "tmp"}}
	tuOn := eq(QC("t", "k"), QC("u", "k"))
	ttmpOn := eq(QC("t", "k"), QC("tmp", "k"))
	ops := []Op{
		// ---- file table t
		&Insert{Id: "t-ins1", Tab: "t", Rows: [][]Expr{row(LI(4), LS("k4"), LS("w"))}},
		&Insert{Id: "t-ins2", Tab: "t", Rows: [][]Expr{row(LI(5), LS("k5"), LNull()), row(LI(6), LS("k1"), LS("v"))}},
		&Insert{Id: "t-ins-cols", Tab: "t", Cols: []string{"b", "a"}, Rows: [][]Expr{row(LS("q"), LI(7))}},
		&Insert{Id: "t-ins-sel-u", Tab: "t", Cols: []string{"a", "k", "b"}, Sel: &Select{Exprs: []Expr{C("w"), C("k"), LNull()}, From: "u", Where: Cmp{">", C("w"), LI(10)}}},
		&Insert{Id: "t-ins-sel-self", Tab: "t", Sel: &Select{Exprs: []Expr{plus(C("a"), 10), C("k"), C("b")}, From: "t", Where: Cmp{"<", C("a"), LI(3)}}},
		&Update{Id: "t-upd-gt", Targets: []string{"t"}, From: single("t"), Sets: []SetItem{set(col("b"), LS("U"))}, Where: Cmp{">", C("a"), LI(1)}},
		&Update{Id: "t-upd-all2", Targets: []string{"t"}, From: single("t"), Sets: []SetItem{set(col("a"), plus(C("a"), 1)), set(col("b"), C("k"))}},
		&Update{Id: "t-upd-or-null", Targets: []string{"t"}, From: single("t"), Sets: []SetItem{set(col("b"), C("a"))}, Where: or(eq(C("k"), LS("k2")), IsNull{X: C("b")})},
		&Update{Id: "t-upd-dupkey", Targets: []string{"t"}, From: single("t"), Sets: []SetItem{set(col("k"), LS("k1"))}, Where: eq(C("a"), LI(3))},
		&Update{Id: "t-upd-insub", Targets: []string{"t"}, From: single("t"), Sets: []SetItem{set(qcol("t", "b"), LI(0))}, Where: InSub{X: C("k"), Tab: "u", Col: "k"}},
		&Delete{Id: "t-del-and", Targets: []string{"t"}, From: single("t"), Where: and(Cmp{">=", C("a"), LI(2)}, Cmp{"<>", C("b"), LS("x")})},
		&Delete{Id: "t-del-k1", Targets: []string{"t"}, From: single("t"), Where: eq(C("k"), LS("k1"))},
		&Delete{Id: "t-del-all", Targets: []string{"t"}, From: single("t")},
		&Delete{Id: "t-del-in", Targets: []string{"t"}, From: single("t"), Where: In{X: C("a"), List: []Expr{LI(1), LI(3)}}},
		&Delete{Id: "t-del-not", Targets: []string{"t"}, From: single("t"), Where: Not{eq(C("a"), LI(2))}},
		// multi-table forms: two targets, matching rows at different positions
		&Update{Id: "tu-upd2", Multi: true, Targets: []string{"t", "u"}, From: tu, On: tuOn,
			Sets: []SetItem{set(qcol("t", "b"), QC("u", "w")), set(qcol("u", "w"), QC("t", "a"))}},
		&Update{Id: "ttmp-upd2", Multi: true, Targets: []string{"t", "tmp"}, From: ttmp, On: ttmpOn,
			Sets: []SetItem{set(qcol("t", "a"), QC("tmp", "n")), set(qcol("tmp", "n"), QC("t", "a"))}, Where: Cmp{">", QC("tmp", "n"), LI(4)}},
		&Update{Id: "t-upd-alias", Multi: true, Targets: []string{"x"}, From: []TabRef{{Tab: "t", Alias: "x"}},
			Sets: []SetItem{set(qcol("x", "b"), LS("AL"))}, Where: eq(QC("x", "a"), LI(1))},
		&Update{Id: "tu-upd1", Multi: true, Targets: []string{"u"}, From: tu, On: tuOn,
			Sets: []SetItem{set(qcol("u", "w"), plus(QC("t", "a"), 100))}},
		&Delete{Id: "tu-del2", Multi: true, Targets: []string{"t", "u"}, From: tu, On: tuOn, Where: Cmp{">", QC("u", "w"), LI(10)}},
		&Delete{Id: "tu-del1", Multi: true, Targets: []string{"t"}, From: tu, On: tuOn},
		&Delete{Id: "tmpt-del2", Multi: true, Targets: []string{"tmp", "t"}, From: []TabRef{{Tab: "tmp"}, {Tab: "t"}}, On: ttmpOn, Where: Cmp{">", QC("t", "a"), LI(1)}},
		// REPLACE: the key is the second column; 0..3 unmatched rows
		&Replace{Id: "t-rep0", Tab: "t", Cols: []string{"k", "b"}, Keys: []string{"k"}, Rows: [][]Expr{row(LS("k2"), LS("R2"))}},
		&Replace{Id: "t-rep1", Tab: "t", Cols: []string{"a", "k", "b"}, Keys: []string{"k"}, Rows: [][]Expr{row(LI(8), LS("k3"), LS("R3")), row(LI(9), LS("n1"), LS("N1"))}},
		&Replace{Id: "t-rep2", Tab: "t", Cols: []string{"k", "b"}, Keys: []string{"k"}, Rows: [][]Expr{row(LS("n2"), LS("N2")), row(LS("k1"), LS("R1")), row(LS("n3"), LS("N3"))}},
		&Replace{Id: "t-rep3", Tab: "t", Cols: []string{"b", "k"}, Keys: []string{"k"}, Rows: [][]Expr{row(LS("M1"), LS("m1")), row(LS("M2"), LS("m2")), row(LS("M3"), LS("m3"))}},
		&Replace{Id: "t-rep-sel", Tab: "t", Cols: []string{"k", "b"}, Keys: []string{"k"}, Sel: &Select{Exprs: []Expr{C("k"), C("w")}, From: "u"}},
		&Replace{Id: "t-rep-dup", Tab: "t", Cols: []string{"k", "b"}, Keys: []string{"k"}, Rows: [][]Expr{row(LS("k2"), LS("D1")), row(LS("k2"), LS("D2"))}},
		&Replace{Id: "t-rep-2keys", Tab: "t", Keys: []string{"k", "a"}, Rows: [][]Expr{row(LI(1), LS("k1"), LS("KK"))}},
		// ALTER TABLE
		&AddCols{Id: "t-add-first", Tab: "t", Cols: []NewCol{{Name: "c1"}}, Pos: "FIRST"},
		&AddCols{Id: "t-add-after", Tab: "t", Cols: []NewCol{{Name: "c2", Default: Arith{'*', C("a"), LI(2)}}}, Pos: "AFTER", Ref: "k"},
		&AddCols{Id: "t-add-before2", Tab: "t", Cols: []NewCol{{Name: "c3", Default: LS("d")}, {Name: "c4"}}, Pos: "BEFORE", Ref: "b"},
		&AddCols{Id: "t-add-default", Tab: "t", Cols: []NewCol{{Name: "c5", Default: LI(0)}}},
		&AddCols{Id: "t-add-last", Tab: "t", Cols: []NewCol{{Name: "c1"}}, Pos: "LAST"},
		&DropCols{Id: "t-drop-b", Tab: "t", Cols: []string{"b"}},
		&DropCols{Id: "t-drop-2", Tab: "t", Cols: []string{"c1", "a"}},
		&RenameCol{Id: "t-ren-b", Tab: "t", Old: "b", New: "bb"},
		&RenameCol{Id: "t-ren-a-b", Tab: "t", Old: "a", New: "b"},
		// ---- second file table u
		&Insert{Id: "u-ins", Tab: "u", Rows: [][]Expr{row(LS("k2"), LI(20))}},
		&Delete{Id: "u-del", Targets: []string{"u"}, From: single("u"), Where: eq(C("k"), LS("k9"))},
		// ---- temporary table
		&Insert{Id: "tmp-ins1", Tab: "tmp", Rows: [][]Expr{row(LS("k3"), LI(3))}},
		&Insert{Id: "tmp-ins-cols2", Tab: "tmp", Cols: []string{"n"}, Rows: [][]Expr{row(LI(5)), row(LI(6))}},
		&Insert{Id: "tmp-ins-sel", Tab: "tmp", Sel: &Select{Exprs: []Expr{C("k"), C("w")}, From: "u", Where: Cmp{"<", C("w"), LI(50)}}},
		&Update{Id: "tmp-upd", Targets: []string{"tmp"}, From: single("tmp"), Sets: []SetItem{set(col("n"), plus(C("n"), 10))}, Where: eq(C("k"), LS("k1"))},
		&Update{Id: "tmp-upd-all", Targets: []string{"tmp"}, From: single("tmp"), Sets: []SetItem{set(col("n"), Arith{'*', C("n"), LI(2)})}},
		&Delete{Id: "tmp-del", Targets: []string{"tmp"}, From: single("tmp"), Where: Cmp{">", C("n"), LI(10)}},
		&Replace{Id: "tmp-rep1", Tab: "tmp", Cols: []string{"n", "k"}, Keys: []string{"k"}, Rows: [][]Expr{row(LI(7), LS("k4")), row(LI(8), LS("k8"))}},
		&Replace{Id: "tmp-rep2", Tab: "tmp", Cols: []string{"n", "k"}, Keys: []string{"k"}, Rows: [][]Expr{row(LI(7), LS("k7")), row(LI(9), LS("k9"))}},
		&AddCols{Id: "tmp-add", Tab: "tmp", Cols: []NewCol{{Name: "c1", Default: C("n")}}, Pos: "FIRST"},
		&DropCols{Id: "tmp-drop", Tab: "tmp", Cols: []string{"n"}},
		&RenameCol{Id: "tmp-ren", Tab: "tmp", Old: "n", New: "m"},
		// ---- standard input
		&Insert{Id: "in-ins", Tab: "STDIN", Rows: [][]Expr{row(LS("k7"), LS("r"))}},
		&Insert{Id: "in-ins-cols2", Tab: "STDIN", Cols: []string{"s"}, Rows: [][]Expr{row(LS("s1")), row(LS("s2"))}},
		&Update{Id: "in-upd", Targets: []string{"STDIN"}, From: single("STDIN"), Sets: []SetItem{set(col("s"), LS("S"))}, Where: eq(C("k"), LS("k2"))},
		&Delete{Id: "in-del", Targets: []string{"STDIN"}, From: single("STDIN"), Where: eq(C("k"), LS("k1"))},
		&Replace{Id: "in-rep1", Tab: "STDIN", Cols: []string{"s", "k"}, Keys: []string{"k"}, Rows: [][]Expr{row(LS("R"), LS("k2")), row(LS("N"), LS("k5"))}},
		&AddCols{Id: "in-add", Tab: "STDIN", Cols: []NewCol{{Name: "c1", Default: LI(1)}}, Pos: "BEFORE", Ref: "s"},
		&RenameCol{Id: "in-ren", Tab: "STDIN", Old: "s", New: "ss"},
		&Update{Id: "intmp-upd2", Multi: true, Targets: []string{"si", "tmp"}, From: []TabRef{{Tab: "STDIN", Alias: "si"}, {Tab: "tmp"}}, On: eq(QC("si", "k"), QC("tmp", "k")),
			Sets: []SetItem{set(qcol("si", "s"), QC("tmp", "n")), set(qcol("tmp", "n"), LI(0))}},
	}
	if thorough {
		ops = append(ops,
			&Insert{Id: "t-ins-sel-tmp", Tab: "t", Cols: []string{"k", "a"}, Sel: &Select{Exprs: []Expr{C("k"), C("n")}, From: "tmp"}},
			&Update{Id: "t-upd-isnull", Targets: []string{"t"}, From: single("t"), Sets: []SetItem{set(col("a"), LI(0))}, Where: IsNull{X: C("a")}},
			&Update{Id: "t-upd-sub", Targets: []string{"t"}, From: single("t"), Sets: []SetItem{set(col("b"), ScalarSub{Tab: "u", Col: "w"})}, Where: eq(C("a"), LI(2))},
			&Delete{Id: "t-del-null", Targets: []string{"t"}, From: single("t"), Where: IsNull{X: C("k")}},
			&Update{Id: "tu-upd-cross", Multi: true, Targets: []string{"t"}, From: tu, Sets: []SetItem{set(qcol("t", "b"), QC("u", "k"))}, Where: and(tuOn, Cmp{"<", QC("t", "a"), LI(3)})},
			&Delete{Id: "tu-del-u", Multi: true, Targets: []string{"u"}, From: tu, On: tuOn, Where: Cmp{"<", QC("t", "a"), LI(3)}},
			&Replace{Id: "t-rep-full", Tab: "t", Keys: []string{"k"}, Rows: [][]Expr{row(LI(0), LS("k3"), LS("F")), row(LI(0), LS("f1"), LS("F1"))}},
			&Replace{Id: "u-rep2", Tab: "u", Cols: []string{"w", "k"}, Keys: []string{"k"}, Rows: [][]Expr{row(LI(1), LS("k1")), row(LI(5), LS("k5")), row(LI(6), LS("k6"))}},
			&AddCols{Id: "t-add-after-last", Tab: "t", Cols: []NewCol{{Name: "c6", Default: C("k")}}, Pos: "AFTER", Ref: "b"},
			&AddCols{Id: "u-add", Tab: "u", Cols: []NewCol{{Name: "c1", Default: plus(C("w"), 1)}}, Pos: "BEFORE", Ref: "k"},
			&DropCols{Id: "t-drop-k-b", Tab: "t", Cols: []string{"b", "a"}},
			&RenameCol{Id: "u-ren", Tab: "u", Old: "w", New: "ww"},
			&Delete{Id: "tmp-del-all", Targets: []string{"tmp"}, From: single("tmp")},
			&Replace{Id: "tmp-rep-sel", Tab: "tmp", Keys: []string{"k"}, Sel: &Select{Exprs: []Expr{C("k"), C("a")}, From: "t"}},
			&DropCols{Id: "in-drop", Tab: "STDIN", Cols: []string{"s"}},
		)
	}
	// the same statements at the bottom of a nested block
	nest := map[string][]string{"tmp-ins1": {"if", "commit"}, "tmp-upd-all": {"while"}, "in-ins": {"func"}, "in-upd": {"commit"}, "in-del": {"commit"}, "tmp-rep1": {"while"}, "t-ins1": {"func", "commit"}, "tmp-add": {"if"}}
	if thorough {
		nest = map[string][]string{}
		for _, o := range ops {
			if strings.HasPrefix(o.ID(), "tmp-") || strings.HasPrefix(o.ID(), "in-") {
				nest[o.ID()] = []string{"if", "while", "func", "commit"}
			}
		}
		nest["t-ins1"] = []string{"func"}
		nest["t-upd-gt"] = []string{"while"}
		nest["tu-upd2"] = []string{"if"}
	}
	base := len(ops)
	for _, o := range ops[:base] {
		for _, k := range nest[o.ID()] {
			ops = append(ops, &Nested{Inner: o, Kind: k})
		}
	}
	seen := map[string]bool{}
	for _, o := range ops {
		if seen[o.ID()] {
			panic("duplicate op id " + o.ID())
		}
		seen[o.ID()] = true
	}
	return ops
}

func OpByID(ops []Op, id string) Op {
	for _, o := range ops {
		if o.ID() == id {
			return o
		}
	}
	return nil
}

// UsesStdin tells whether the statement names the standard-input table.
func UsesStdin(o Op) bool {
	for _, t := range o.Tables() {
		if t == "STDIN" {
			return true
		}
	}
	return false
}

// ---- failing statements (C08) ---------------------------------------------------------------------

// Variant is one statement that must fail in the given state, together with a corrected statement.
type Variant struct {
	Id      string
	Op      Op
	Late    bool   // the failure strikes after a part of the statement's work has been done (a later record, a later SET item, a later VALUES row, a joined row after the first)
	Retry   Op     // the corrected statement
	NewFile string // CREATE TABLE: the file that must not exist afterwards
	// NeedsHandler: the statement fails only while the transaction holds a file handler of this table (base name);
	// the runner asks csvq's container and skips the variant otherwise
	NeedsHandler string
}

// intLike returns the integer a cell holds when arithmetic treats it as one.
func intLike(v rv.V) (int64, bool) { return v.StrictInt() }

// strikePositions picks, for a numeric column, constants K such that 1/(col-K) fails at the first, a middle and the last
// record that holds an integer.
func strikePositions(t *Table, colName string) (ks []int64, pos []int, label []string) {
	ci := t.ColIndex(colName)
	if ci < 0 {
		return
	}
	var rowsWithInt []int
	for i, r := range t.Rows {
		if _, ok := intLike(r[ci]); ok {
			rowsWithInt = append(rowsWithInt, i)
		}
	}
	if len(rowsWithInt) == 0 {
		return
	}
	want := []struct {
		at    int
		label string
	}{{rowsWithInt[0], "first"}}
	if len(rowsWithInt) >= 3 {
		want = append(want, struct {
			at    int
			label string
		}{rowsWithInt[len(rowsWithInt)/2], "middle"})
	}
	if len(rowsWithInt) >= 2 {
		want = append(want, struct {
			at    int
			label string
		}{rowsWithInt[len(rowsWithInt)-1], "last"})
	}
	used := map[int64]bool{}
	for _, w := range want {
		k, _ := intLike(t.Rows[w.at][ci])
		if used[k] {
			continue
		}
		used[k] = true
		first := w.at
		for i, r := range t.Rows { // an earlier record with the same value moves the strike forward
			if x, ok := intLike(r[ci]); ok && x == k {
				first = i
				break
			}
		}
		ks = append(ks, k)
		pos = append(pos, first)
		label = append(label, w.label)
	}
	return
}

// safeK is a constant no record holds, so 1/(col-safeK) never divides by zero.
const safeK = -1000

// Variants generates the failing statements for state s. Statements the model does not expect to fail in s are
// filtered out by the caller (Apply(s).Kind != Fail).
func Variants(s *State, thorough bool) []Variant {
	var vs []Variant
	add := func(v Variant) { vs = append(vs, v) }
	type tabSpec struct {
		name, num, txt string
	}
	for _, ts := range []tabSpec{{"t", "a", "b"}, {"tmp", "n", "k"}} {
		t := s.Tab(ts.name)
		n := ts.name
		ks, pos, label := strikePositions(t, ts.num)
		for i, k := range ks {
			late := pos[i] > 0
			add(Variant{Id: fmt.Sprintf("%s-upd-div0-%s", n, label[i]), Late: late,
				Op:    &Update{Id: "v", Targets: []string{n}, From: single(n), Sets: []SetItem{set(col(ts.txt), oneOver(C(ts.num), k))}},
				Retry: &Update{Id: "r", Targets: []string{n}, From: single(n), Sets: []SetItem{set(col(ts.txt), oneOver(C(ts.num), safeK))}}})
			// the dividend is a cell of the table itself (num / (num - k)): the failing division must leave it alone
			add(Variant{Id: fmt.Sprintf("%s-upd-cell-div0-%s", n, label[i]), Late: late,
				Op:    &Update{Id: "v", Targets: []string{n}, From: single(n), Sets: []SetItem{set(col(ts.txt), Arith{'/', C(ts.num), Arith{'-', C(ts.num), LI(k)}})}},
				Retry: &Update{Id: "r", Targets: []string{n}, From: single(n), Sets: []SetItem{set(col(ts.txt), Arith{'/', C(ts.num), Arith{'-', C(ts.num), LI(safeK)}})}}})
			if label[i] == "first" {
				// the first SET item of the first record is installed, then the second fails
				add(Variant{Id: n + "-upd-div0-2nd-set-item", Late: true,
					Op:    &Update{Id: "v", Targets: []string{n}, From: single(n), Sets: []SetItem{set(col(ts.num), LI(99)), set(col(ts.txt), oneOver(C(ts.num), k))}},
					Retry: &Update{Id: "r", Targets: []string{n}, From: single(n), Sets: []SetItem{set(col(ts.num), LI(99)), set(col(ts.txt), oneOver(C(ts.num), safeK))}}})
			}
			if label[i] == "last" || len(ks) == 1 {
				add(Variant{Id: n + "-del-div0-" + label[i], Late: late,
					Op:    &Delete{Id: "v", Targets: []string{n}, From: single(n), Where: Cmp{">", oneOver(C(ts.num), k), LI(5)}},
					Retry: &Delete{Id: "r", Targets: []string{n}, From: single(n), Where: Cmp{"=", oneOver(C(ts.num), safeK), LI(0)}}})
				add(Variant{Id: n + "-add-default-div0-" + label[i], Late: late,
					Op:    &AddCols{Id: "v", Tab: n, Cols: []NewCol{{Name: "c9", Default: oneOver(C(ts.num), k)}}, Pos: "FIRST"},
					Retry: &AddCols{Id: "r", Tab: n, Cols: []NewCol{{Name: "c9", Default: oneOver(C(ts.num), safeK)}}, Pos: "FIRST"}})
				add(Variant{Id: n + "-ins-sel-self-div0-" + label[i], Late: late,
					Op:    &Insert{Id: "v", Tab: n, Cols: []string{ts.txt}, Sel: &Select{Exprs: []Expr{oneOver(C(ts.num), k)}, From: n}},
					Retry: &Insert{Id: "r", Tab: n, Cols: []string{ts.txt}, Sel: &Select{Exprs: []Expr{oneOver(C(ts.num), safeK)}, From: n}}})
			}
		}
		other := ts.txt // a second column besides the key
		if other == "k" {
			other = ts.num
		}
		full := func(first Expr) []Expr { // a complete VALUES row for table n in state s
			r := make([]Expr, len(t.Cols))
			for i := range r {
				r[i] = LS(fmt.Sprintf("v%d", i))
			}
			if len(r) > 0 {
				r[0] = first
			}
			return r
		}
		if len(t.Cols) >= 2 {
			add(Variant{Id: n + "-ins-short-2nd-row", Late: true,
				Op:    &Insert{Id: "v", Tab: n, Rows: [][]Expr{full(LS("r1")), full(LS("r2"))[:len(t.Cols)-1]}},
				Retry: &Insert{Id: "r", Tab: n, Rows: [][]Expr{full(LS("r1")), full(LS("r2"))}}})
		}
		if len(t.Cols) >= 1 {
			add(Variant{Id: n + "-ins-div0-2nd-row", Late: true,
				Op:    &Insert{Id: "v", Tab: n, Rows: [][]Expr{full(LS("r1")), full(Arith{'/', LI(1), LI(0)})}},
				Retry: &Insert{Id: "r", Tab: n, Rows: [][]Expr{full(LS("r1")), full(Arith{'/', LI(1), LI(1)})}}})
		}
		if len(t.Cols) >= 1 {
			// the first row takes its values from cells of ANOTHER table (scalar sub-queries hand out the stored
			// objects themselves), then the second row fails: u must stay as it is, also after later evaluation
			sub := func(i int) Expr {
				if i%2 == 0 {
					return ScalarSub{Tab: "u", Col: "k", WCol: "w", WVal: "30"}
				}
				return ScalarSub{Tab: "u", Col: "w", WCol: "k", WVal: "k1"}
			}
			r1 := make([]Expr, len(t.Cols))
			for i := range r1 {
				r1[i] = sub(i)
			}
			add(Variant{Id: n + "-ins-subquery-values-then-div0-2nd-row", Late: true,
				Op:    &Insert{Id: "v", Tab: n, Rows: [][]Expr{r1, full(Arith{'/', LI(1), LI(0)})}},
				Retry: &Insert{Id: "r", Tab: n, Rows: [][]Expr{r1, full(Arith{'/', LI(1), LI(1)})}}})
		}
		// refused while the tables are being loaded for the statement (after the cache has been consulted)
		add(Variant{Id: n + "-upd-table-named-twice",
			Op:    &RawFail{Id: "v", Cls: "update", Tabs: []string{n}, Text: "UPDATE " + n + " SET " + ts.txt + " = 'never' FROM " + n + ", " + n},
			Retry: &Update{Id: "r", Targets: []string{n}, From: single(n), Sets: []SetItem{set(col(ts.txt), LS("never"))}}})
		add(Variant{Id: n + "-del-table-named-twice",
			Op:    &RawFail{Id: "v", Cls: "delete", Tabs: []string{n}, Text: "DELETE " + n + " FROM " + n + ", " + n},
			Retry: &Delete{Id: "r", Targets: []string{n}, From: single(n), Where: eq(C(ts.num), LI(safeK))}})
		// refused because ANOTHER table of the statement cannot be loaded, after this one was
		add(Variant{Id: n + "-upd-joined-with-unknown-table",
			Op:    &RawFail{Id: "v", Cls: "update", Tabs: []string{n}, Text: "UPDATE " + n + " SET " + ts.txt + " = 'never' FROM " + n + " CROSS JOIN nosuch"},
			Retry: &Update{Id: "r", Targets: []string{n}, From: single(n), Sets: []SetItem{set(col(ts.txt), LS("never"))}}})
		add(Variant{Id: n + "-other-statement-on-unknown-table",
			Op:    &RawFail{Id: "v", Cls: "insert", Text: "INSERT INTO nosuch VALUES (1)"},
			Retry: &Update{Id: "r", Targets: []string{n}, From: single(n), Sets: []SetItem{set(col(ts.txt), LS("never"))}}})
		add(Variant{Id: n + "-ins-unknown-field",
			Op:    &Insert{Id: "v", Tab: n, Cols: []string{"k", "nosuch"}, Rows: [][]Expr{row(LS("z1"), LI(1))}},
			Retry: &Insert{Id: "r", Tab: n, Cols: []string{"k"}, Rows: [][]Expr{row(LS("z1"))}}})
		add(Variant{Id: n + "-upd-unknown-field-2nd-set-item", Late: true,
			Op:    &Update{Id: "v", Targets: []string{n}, From: single(n), Sets: []SetItem{set(col("k"), LS("zz")), set(col("nosuch"), LI(1))}},
			Retry: &Update{Id: "r", Targets: []string{n}, From: single(n), Sets: []SetItem{set(col("k"), LS("zz"))}}})
		add(Variant{Id: n + "-del-unknown-field",
			Op:    &Delete{Id: "v", Targets: []string{n}, From: single(n), Where: eq(C("nosuch"), LI(1))},
			Retry: &Delete{Id: "r", Targets: []string{n}, From: single(n), Where: eq(C("k"), LS("k1"))}})
		add(Variant{Id: n + "-rep-short-2nd-row", Late: true,
			Op:    &Replace{Id: "v", Tab: n, Cols: []string{"k", other}, Keys: []string{"k"}, Rows: [][]Expr{row(LS("k1"), LS("q1")), row(LS("k2"))}},
			Retry: &Replace{Id: "r", Tab: n, Cols: []string{"k", other}, Keys: []string{"k"}, Rows: [][]Expr{row(LS("k2"), LS("q2"))}}})
		add(Variant{Id: n + "-rep-key-not-listed",
			Op:    &Replace{Id: "v", Tab: n, Cols: []string{ts.num}, Keys: []string{"k"}, Rows: [][]Expr{row(LI(1))}},
			Retry: &Replace{Id: "r", Tab: n, Cols: []string{ts.num, "k"}, Keys: []string{"k"}, Rows: [][]Expr{row(LI(1), LS("k1"))}}})
		add(Variant{Id: n + "-rep-div0-2nd-row", Late: true,
			Op:    &Replace{Id: "v", Tab: n, Cols: []string{"k", ts.num}, Keys: []string{"k"}, Rows: [][]Expr{row(LS("k1"), LI(1)), row(LS("k2"), Arith{'/', LI(1), LI(0)})}},
			Retry: &Replace{Id: "r", Tab: n, Cols: []string{"k", ts.num}, Keys: []string{"k"}, Rows: [][]Expr{row(LS("k2"), Arith{'/', LI(4), LI(2)})}}})
		add(Variant{Id: n + "-drop-unknown-2nd",
			Op:    &DropCols{Id: "v", Tab: n, Cols: []string{ts.txt, "nosuch"}},
			Retry: &DropCols{Id: "r", Tab: n, Cols: []string{ts.txt}}})
		add(Variant{Id: n + "-rename-unknown",
			Op:    &RenameCol{Id: "v", Tab: n, Old: "nosuch", New: "q9"},
			Retry: &RenameCol{Id: "r", Tab: n, Old: "k", New: "q9"}})
		add(Variant{Id: n + "-rename-to-existing",
			Op:    &RenameCol{Id: "v", Tab: n, Old: ts.num, New: "k"},
			Retry: &RenameCol{Id: "r", Tab: n, Old: ts.num, New: "q8"}})
		add(Variant{Id: n + "-add-after-unknown",
			Op:    &AddCols{Id: "v", Tab: n, Cols: []NewCol{{Name: "c9"}}, Pos: "AFTER", Ref: "nosuch"},
			Retry: &AddCols{Id: "r", Tab: n, Cols: []NewCol{{Name: "c9"}}, Pos: "AFTER", Ref: "k"}})
		add(Variant{Id: n + "-add-duplicate-2nd", Late: true,
			Op:    &AddCols{Id: "v", Tab: n, Cols: []NewCol{{Name: "c9", Default: LI(1)}, {Name: "K"}}},
			Retry: &AddCols{Id: "r", Tab: n, Cols: []NewCol{{Name: "c9", Default: LI(1)}, {Name: "c8"}}}})
		add(Variant{Id: n + "-upd-subquery-many",
			Op:    &Update{Id: "v", Targets: []string{n}, From: single(n), Sets: []SetItem{set(col(ts.txt), ScalarSub{Tab: "u", Col: "k"})}},
			Retry: &Update{Id: "r", Targets: []string{n}, From: single(n), Sets: []SetItem{set(col(ts.txt), LS("sub"))}}})
		add(Variant{Id: n + "-del-subquery-many",
			Op:    &Delete{Id: "v", Targets: []string{n}, From: single(n), Where: eq(C("k"), ScalarSub{Tab: "u", Col: "k"})},
			Retry: &Delete{Id: "r", Targets: []string{n}, From: single(n), Where: InSub{X: C("k"), Tab: "u", Col: "k"}}})
	}
	// a file table addressed through an alias
	{
		ks, pos, label := strikePositions(s.Tab("t"), "a")
		for i, k := range ks {
			add(Variant{Id: "t-alias-upd-div0-" + label[i], Late: pos[i] > 0,
				Op: &Update{Id: "v", Multi: true, Targets: []string{"x"}, From: []TabRef{{Tab: "t", Alias: "x"}},
					Sets: []SetItem{set(qcol("x", "b"), oneOver(QC("x", "a"), k))}},
				Retry: &Update{Id: "r", Multi: true, Targets: []string{"x"}, From: []TabRef{{Tab: "t", Alias: "x"}},
					Sets: []SetItem{set(qcol("x", "b"), oneOver(QC("x", "a"), safeK))}}})
		}
	}
	// multi-table statements: the first joined row is processed for both targets, a later one fails
	tu := []TabRef{{Tab: "t"}, {Tab: "u"}}
	tuOn := eq(QC("t", "k"), QC("u", "k"))
	add(Variant{Id: "tu-upd-ambiguous", Late: true,
		Op: &Update{Id: "v", Multi: true, Targets: []string{"t", "u"}, From: tu,
			Sets: []SetItem{set(qcol("t", "b"), QC("u", "w")), set(qcol("u", "w"), QC("t", "a"))}},
		Retry: &Update{Id: "r", Multi: true, Targets: []string{"t", "u"}, From: tu, On: and(tuOn, Cmp{"=", QC("u", "k"), LS("k3")}),
			Sets: []SetItem{set(qcol("t", "b"), LS("T")), set(qcol("u", "w"), LS("W"))}, Where: Cmp{"=", QC("t", "a"), LI(3)}}})
	add(Variant{Id: "tu-upd-field-of-table-not-updated", Late: true,
		Op: &Update{Id: "v", Multi: true, Targets: []string{"t"}, From: tu, On: tuOn,
			Sets: []SetItem{set(qcol("t", "b"), LS("T")), set(qcol("u", "w"), LI(1))}},
		Retry: &Update{Id: "r", Multi: true, Targets: []string{"t"}, From: tu, On: tuOn, Sets: []SetItem{set(qcol("t", "b"), LS("T"))}}})
	if ks, pos, label := strikePositions(s.Tab("t"), "a"); len(ks) > 0 {
		i := len(ks) - 1
		if u := s.Tab("u"); len(u.Rows) > 0 && u.ColIndex("k") >= 0 && u.Rows[0][u.ColIndex("k")].K == rv.Str {
			// every record of t joined with the first record of u: t.b is set once per record of t until a = K
			uk := Lit{u.Rows[0][u.ColIndex("k")]}
			add(Variant{Id: "tu-upd-div0-" + label[i], Late: pos[i] > 0,
				Op: &Update{Id: "v", Multi: true, Targets: []string{"t", "u"}, From: tu,
					Sets: []SetItem{set(qcol("t", "b"), oneOver(QC("t", "a"), ks[i]))}, Where: eq(QC("u", "k"), uk)},
				Retry: &Update{Id: "r", Multi: true, Targets: []string{"t", "u"}, From: tu,
					Sets: []SetItem{set(qcol("t", "b"), oneOver(QC("t", "a"), safeK))}, Where: eq(QC("u", "k"), uk)}})
		}
		add(Variant{Id: "tu-del-div0-" + label[i], Late: pos[i] > 0,
			Op:    &Delete{Id: "v", Multi: true, Targets: []string{"t", "u"}, From: tu, On: tuOn, Where: Cmp{">", oneOver(QC("t", "a"), ks[i]), LI(5)}},
			Retry: &Delete{Id: "r", Multi: true, Targets: []string{"t", "u"}, From: tu, On: tuOn, Where: Cmp{"=", oneOver(QC("t", "a"), safeK), LI(0)}}})
	}
	add(Variant{Id: "ttmp-upd-ambiguous", Late: true,
		Op: &Update{Id: "v", Multi: true, Targets: []string{"tmp", "t"}, From: []TabRef{{Tab: "tmp"}, {Tab: "t"}},
			Sets: []SetItem{set(qcol("tmp", "k"), QC("t", "k")), set(qcol("t", "k"), QC("tmp", "k"))}},
		Retry: &Update{Id: "r", Multi: true, Targets: []string{"tmp", "t"}, From: []TabRef{{Tab: "tmp"}, {Tab: "t"}}, On: and(eq(QC("t", "k"), QC("tmp", "k")), eq(QC("t", "k"), LS("k2"))),
			Sets: []SetItem{set(qcol("tmp", "k"), LS("A")), set(qcol("t", "k"), LS("B"))}, Where: eq(QC("t", "a"), LI(2))}})
	// standard input
	in := s.Tab("STDIN")
	if len(in.Cols) >= 2 {
		short := make([]Expr, len(in.Cols)-1)
		fullr := make([]Expr, len(in.Cols))
		for i := range fullr {
			fullr[i] = LS(fmt.Sprintf("i%d", i))
			if i < len(short) {
				short[i] = fullr[i]
			}
		}
		add(Variant{Id: "in-ins-short-2nd-row", Late: true,
			Op:    &Insert{Id: "v", Tab: "STDIN", Rows: [][]Expr{fullr, short}},
			Retry: &Insert{Id: "r", Tab: "STDIN", Rows: [][]Expr{fullr, fullr}}})
	}
	// refused while the tables of the statement are loaded: the table named twice, joined with a table that does not
	// exist, or a statement that does not name it at all; the corrected statement then takes the table for update again
	if len(in.Cols) >= 1 {
		c0 := in.Cols[0]
		retry := func() Op {
			return &Update{Id: "r", Targets: []string{"STDIN"}, From: single("STDIN"), Sets: []SetItem{set(col(c0), LS("zz"))}}
		}
		add(Variant{Id: "in-upd-table-named-twice",
			Op: &RawFail{Id: "v", Cls: "update", Tabs: []string{"STDIN"}, Text: "UPDATE STDIN SET " + c0 + " = 'never' FROM STDIN, STDIN"}, Retry: retry()})
		add(Variant{Id: "in-upd-joined-with-unknown-table",
			Op: &RawFail{Id: "v", Cls: "update", Tabs: []string{"STDIN"}, Text: "UPDATE STDIN SET " + c0 + " = 'never' FROM STDIN CROSS JOIN nosuch"}, Retry: retry()})
		add(Variant{Id: "in-other-statement-on-unknown-table",
			Op: &RawFail{Id: "v", Cls: "insert", Text: "INSERT INTO nosuch VALUES (1)"}, Retry: retry()})
		add(Variant{Id: "in-select-for-update-of-unknown-table",
			Op: &RawFail{Id: "v", Cls: "select", Text: "SELECT * FROM nosuch FOR UPDATE"}, Retry: retry()})
	}
	add(Variant{Id: "in-upd-unknown-field-2nd-set-item", Late: true,
		Op:    &Update{Id: "v", Targets: []string{"STDIN"}, From: single("STDIN"), Sets: []SetItem{set(col("k"), LS("zz")), set(col("nosuch"), LI(1))}},
		Retry: &Update{Id: "r", Targets: []string{"STDIN"}, From: single("STDIN"), Sets: []SetItem{set(col("k"), LS("zz"))}}})
	// CREATE TABLE
	okCreate := &Create{Id: "r", File: "x.csv", Cols: []string{"c1", "c2"}}
	always := func(*State) bool { return true }
	add(Variant{Id: "create-more-select-fields-than-columns", Late: true, NewFile: "x.csv",
		Op:    &Create{Id: "v", File: "x.csv", Cols: []string{"c1", "c2"}, Sel: &Select{Raw: "SELECT 1, 2, 3"}, Fails: always},
		Retry: okCreate})
	add(Variant{Id: "create-duplicate-column", NewFile: "x.csv",
		Op: &Create{Id: "v", File: "x.csv", Cols: []string{"c1", "C1"}}, Retry: okCreate})
	add(Variant{Id: "create-select-unknown-table", Late: true, NewFile: "x.csv",
		Op: &Create{Id: "v", File: "x.csv", Sel: &Select{Raw: "SELECT * FROM nosuch"}, Fails: always}, Retry: okCreate})
	add(Variant{Id: "create-existing-file", NewFile: "",
		Op: &Create{Id: "v", File: "t.csv", Cols: []string{"c1"}, Fails: always}, Retry: okCreate})
	// a name that differs only in letter case from a file the transaction holds: csvq keys its handlers by the
	// upper-cased path and refuses ("already opened") after the lock file and the empty new file were created
	add(Variant{Id: "create-other-case-of-held-file", Late: true, NeedsHandler: "t.csv",
		Op: &Create{Id: "v", File: "T.csv", Cols: []string{"c1", "c2"}, Fails: always}, Retry: okCreate})
	add(Variant{Id: "create-select-other-case-of-held-file", Late: true, NeedsHandler: "t.csv",
		Op: &Create{Id: "v", File: "T.CSV", Sel: &Select{Raw: "SELECT 1 AS c1, 2 AS c2"}, Fails: always}, Retry: okCreate})
	add(Variant{Id: "create-select-subquery-many", Late: true, NewFile: "x.csv",
		Op: &Create{Id: "v", File: "x.csv", Cols: []string{"c1"}, Sel: &Select{Exprs: []Expr{ScalarSub{Tab: "u", Col: "k"}}, From: "u"}}, Retry: okCreate})
	if ks, _, label := strikePositions(s.Tab("t"), "a"); len(ks) > 0 {
		i := len(ks) - 1
		add(Variant{Id: "create-select-div0-" + label[i], Late: true, NewFile: "x.csv",
			Op:    &Create{Id: "v", File: "x.csv", Sel: &Select{Exprs: []Expr{oneOver(C("a"), ks[i])}, From: "t"}},
			Retry: okCreate})
	}
	add(Variant{Id: "create-select-unknown-field", Late: true, NewFile: "x.csv",
		Op: &Create{Id: "v", File: "x.csv", Cols: []string{"c1"}, Sel: &Select{Exprs: []Expr{C("nosuch")}, From: "u"}}, Retry: okCreate})
	_ = thorough
	return vs
}

func VariantByID(vs []Variant, id string) *Variant {
	for i := range vs {
		if vs[i].Id == id {
			return &vs[i]
		}
	}
	return nil
}
