package dml

import (
	"fmt"
	"io"
	"os"
	"path/filepath"
	"regexp"
	"sort"
	"strconv"
	"strings"
	"time"

	"github.com/mithrandie/csvq/lib/query"

	"verif/harness/internal/drv"
	"verif/harness/internal/rv"
)

// Sys is one csvq process image on a fresh repository holding the initial tables.
type Sys struct {
	Env       *drv.Env
	Dir       string
	discard   *query.Discard
	stdinUsed bool // a statement naming STDIN has been executed
}

// NewSys empties dir, writes the initial files, gives the session a standard input and declares the temporary table.
func NewSys(dir string) (*Sys, error) {
	drv.ClearDir(dir)
	drv.WriteFiles(dir, map[string]string{"t.csv": FileT, "u.csv": FileU})
	env := drv.NewText(dir)
	// nothing competes for the locks of this repository; a generous time-out keeps an overloaded machine from
	// turning a slow step into a spurious "lock wait timeout" (statements on a held stdin lock use shortWait)
	env.Tx.UpdateWaitTimeout(120, 2*time.Millisecond)
	if err := env.Sess.SetStdin(io.NopCloser(strings.NewReader(StdinCSV))); err != nil {
		return nil, err
	}
	s := &Sys{Env: env, Dir: dir, discard: query.NewDiscard()}
	if r := s.exec(Preamble, false); r.Err != nil || r.Panic != nil {
		s.Close()
		return nil, fmt.Errorf("preamble failed: %v %v", r.Err, r.Panic)
	}
	return s, nil
}

func (s *Sys) Close() { s.Env.Close() }

func (s *Sys) exec(sql string, quiet bool) drv.Result {
	if quiet {
		s.Env.Sess.SetStdout(s.discard)
	} else {
		s.Env.Sess.SetStdout(s.Env.Out)
	}
	return s.Env.Exec(sql)
}

// shortWait: a statement on the standard-input table waits for the session's stdin lock; when the transaction already
// holds it the wait can only end by time-out, so the time-out is made short for statements that touch no file.
// (20 ms were too short: on a machine at load average 100 the wait ran out before csvq had looked at the free lock once, and the
// property-preserving change G5-b2 raised the alarm of a defect that is repaired)
const shortWait = 5 * time.Second

// Do executes one data-changing statement with the log captured.
func (s *Sys) Do(o Op) drv.Result {
	if UsesStdin(o) {
		onlyMemory := true
		for _, t := range o.Tables() {
			if t == "t" || t == "u" {
				onlyMemory = false
			}
		}
		if s.stdinUsed && onlyMemory {
			old := s.Env.Tx.WaitTimeout
			s.Env.Tx.WaitTimeout = shortWait
			defer func() { s.Env.Tx.WaitTimeout = old }()
		}
		s.stdinUsed = true
	}
	return s.exec(o.SQL(), false)
}

// DoSQL executes program text with the log captured.
func (s *Sys) DoSQL(sql string) drv.Result { return s.exec(sql, false) }

type TabSnap struct {
	Name string
	Cols []string
	Rows [][]rv.V
}

const readAllSQL = "SELECT * FROM t; SELECT * FROM u; SELECT * FROM tmp; SELECT * FROM STDIN;"

var tabNames = []string{"t", "u", "tmp", "STDIN"}

// ReadAll observes every table with SELECT *.
func (s *Sys) ReadAll() ([]TabSnap, error) {
	r := s.exec(readAllSQL, true)
	if r.Panic != nil {
		return nil, fmt.Errorf("panic: %v", r.Panic)
	}
	if r.Err != nil {
		return nil, r.Err
	}
	if len(r.Views) != len(tabNames) {
		return nil, fmt.Errorf("expected %d result sets, got %d", len(tabNames), len(r.Views))
	}
	out := make([]TabSnap, len(tabNames))
	for i, v := range r.Views {
		out[i] = TabSnap{Name: tabNames[i], Cols: drv.Header(v), Rows: drv.Rows(v)}
	}
	return out, nil
}

// ReadOne observes one table (also one that is not part of the reference state).
func (s *Sys) ReadOne(name string) (TabSnap, error) {
	r := s.exec("SELECT * FROM "+name, true)
	if r.Panic != nil {
		return TabSnap{}, fmt.Errorf("panic: %v", r.Panic)
	}
	if r.Err != nil {
		return TabSnap{}, r.Err
	}
	if len(r.Views) != 1 {
		return TabSnap{}, fmt.Errorf("expected one result set")
	}
	return TabSnap{Name: name, Cols: drv.Header(r.Views[0]), Rows: drv.Rows(r.Views[0])}, nil
}

func (t TabSnap) Key() string {
	return t.Name + "(" + strings.Join(t.Cols, ",") + ")" + drv.RowsKey(t.Rows)
}

func SnapsKey(ts []TabSnap) string {
	p := make([]string, len(ts))
	for i, t := range ts {
		p[i] = t.Key()
	}
	return strings.Join(p, ";")
}

func sameRow(a, b []rv.V) bool {
	if len(a) != len(b) {
		return false
	}
	for i := range a {
		if !rv.SameValue(a[i], b[i]) {
			return false
		}
	}
	return true
}

// Diff kinds between an observed table and the reference table.
const (
	Same       = ""
	DiffHeader = "column-names-or-order"
	DiffRows   = "rows"
)

// Compare is order-sensitive in rows and columns. tailFree > 1 lets the last tailFree rows come in any order.
func (t TabSnap) Compare(m *Table, tailFree int) (diff string, tailReordered bool) {
	if len(t.Cols) != len(m.Cols) {
		return DiffHeader, false
	}
	for i := range t.Cols {
		if t.Cols[i] != m.Cols[i] {
			return DiffHeader, false
		}
	}
	if len(t.Rows) != len(m.Rows) {
		return DiffRows, false
	}
	fixed := len(m.Rows)
	if tailFree > 1 {
		fixed -= tailFree
	}
	for i := 0; i < fixed; i++ {
		if !sameRow(t.Rows[i], m.Rows[i]) {
			return DiffRows, false
		}
	}
	if fixed < len(m.Rows) {
		used := make([]bool, len(m.Rows))
		for i := fixed; i < len(m.Rows); i++ {
			found := false
			for j := fixed; j < len(m.Rows); j++ {
				if !used[j] && sameRow(t.Rows[i], m.Rows[j]) {
					used[j], found = true, true
					if i != j {
						tailReordered = true
					}
					break
				}
			}
			if !found {
				return DiffRows, false
			}
		}
	}
	return Same, tailReordered
}

// CompareState compares all observed tables with a reference state; returns the first difference.
func CompareState(obs []TabSnap, m *State, tailTable string, tail int) (table, diff string, reordered bool) {
	for i, o := range obs {
		tf := 0
		if strings.EqualFold(o.Name, tailTable) {
			tf = tail
		}
		d, re := o.Compare(m.Tabs[i], tf)
		if d != Same {
			return o.Name, d, false
		}
		reordered = reordered || re
	}
	return "", Same, reordered
}

var logRe = regexp.MustCompile(`^(no|\d+) (record|field)s? (inserted|updated|deleted|replaced|added|dropped|renamed) on "(.*)"\.$`)

// ParseLog extracts the "N record(s) ... on ..." lines; file paths are reduced to their base name.
func ParseLog(out string) (lines []LogLine, other []string) {
	for _, l := range strings.Split(out, "\n") {
		l = strings.TrimSpace(l)
		if l == "" {
			continue
		}
		m := logRe.FindStringSubmatch(l)
		if m == nil {
			other = append(other, l)
			continue
		}
		n := 0
		if m[1] != "no" {
			n, _ = strconv.Atoi(m[1])
		}
		lines = append(lines, LogLine{N: n, Unit: m[2], Verb: m[3], Table: filepath.Base(m[4])})
	}
	return
}

// SameLogs compares log lines as a multiset (the order of the lines of a multi-table statement is not promised).
func SameLogs(a, b []LogLine) bool {
	if len(a) != len(b) {
		return false
	}
	ka, kb := make([]string, len(a)), make([]string, len(b))
	for i := range a {
		ka[i], kb[i] = a[i].String(), b[i].String()
	}
	sort.Strings(ka)
	sort.Strings(kb)
	for i := range ka {
		if ka[i] != kb[i] {
			return false
		}
	}
	return true
}

// VisibleFiles lists the repository: name -> content, control files (lock/temp of csvq) separated.
func (s *Sys) Files() (data map[string]string, control []string) {
	data = map[string]string{}
	ents, _ := os.ReadDir(s.Dir)
	for _, e := range ents {
		if strings.HasPrefix(e.Name(), ".") {
			control = append(control, e.Name())
			continue
		}
		b, _ := os.ReadFile(filepath.Join(s.Dir, e.Name()))
		data[e.Name()] = string(b)
	}
	sort.Strings(control)
	return
}

// HandlerKeys: the files the transaction holds open.
func (s *Sys) HandlerKeys() []string {
	ks := s.Env.Tx.FileContainer.Keys()
	for i := range ks {
		ks[i] = strings.ToLower(filepath.Base(ks[i]))
	}
	sort.Strings(ks)
	return ks
}

var posRe = regexp.MustCompile(`^\[L:\d+ C:\d+\] `)
var quotedRe = regexp.MustCompile(`/[^ ]*/`)
var numRe = regexp.MustCompile(`-?\d+`)

// ErrClass reduces an error message to a class (no positions, no paths).
func ErrClass(err error) string {
	if err == nil {
		return ""
	}
	m := posRe.ReplaceAllString(err.Error(), "")
	m = quotedRe.ReplaceAllString(m, "<dir>/")
	m = numRe.ReplaceAllString(m, "N")
	if len(m) > 90 {
		m = m[:90]
	}
	return m
}

// IsLockTimeout recognises csvq's lock wait time-out error.
// (a wait that is already over when the lock is first tried surfaces as "context deadline exceeded")
func IsLockTimeout(err error) bool {
	return err != nil && (strings.Contains(err.Error(), "lock wait timeout") || strings.Contains(err.Error(), "context deadline exceeded"))
}

// IsSyntaxError: the harness wrote a statement csvq cannot parse.
func IsSyntaxError(err error) bool {
	return err != nil && strings.Contains(err.Error(), "syntax error")
}
