package dml

// Node is one reference state reached by the breadth-first search.
type Node struct {
	State  *State
	Key    string
	Depth  int
	Parent int // index of the node this one was first reached from (-1 for the root)
	Via    int // index of the statement in the alphabet
}

type Graph struct {
	Ops   []Op
	Nodes []*Node
	Index map[string]int
}

// Path returns the alphabet indexes of the shortest statement sequence that leads to node i.
func (g *Graph) Path(i int) []int {
	var p []int
	for n := g.Nodes[i]; n.Parent >= 0; n = g.Nodes[n.Parent] {
		p = append(p, n.Via)
	}
	for a, b := 0, len(p)-1; a < b; a, b = a+1, b-1 {
		p[a], p[b] = p[b], p[a]
	}
	return p
}

// Explore runs the breadth-first search on the reference model alone. Every transition (node, statement) out of a node
// of depth < depth is handed to visit, in a deterministic order; a transition discovers a new node when its outcome is
// a definite success (OK, one acceptable result) and expand(outcome) allows it. visit returning false stops the search.
// mineLast (optional) restricts the deepest expanded level to the caller's share of nodes: their successors need not be
// known to anyone else, so the reference work of that level is divided among the workers.
func Explore(ops []Op, depth int, mineLast func(key string) bool, expand func(o Op, out *Outcome) bool, visit func(g *Graph, node int, op int, out *Outcome) bool) *Graph {
	g := &Graph{Ops: ops, Index: map[string]int{}}
	root := Initial()
	g.Nodes = append(g.Nodes, &Node{State: root, Key: root.Key(), Parent: -1, Via: -1})
	g.Index[g.Nodes[0].Key] = 0
	for i := 0; i < len(g.Nodes); i++ {
		n := g.Nodes[i]
		if n.Depth >= depth {
			break // nodes are in depth order
		}
		if n.Depth == depth-1 && mineLast != nil && !mineLast(n.Key) {
			continue
		}
		for oi, o := range ops {
			out := o.Apply(n.State)
			if visit != nil && !visit(g, i, oi, &out) {
				return g
			}
			if out.Kind != OK || len(out.Alt) > 0 || (expand != nil && !expand(o, &out)) {
				continue
			}
			k := out.Next.Key()
			if _, seen := g.Index[k]; seen {
				continue
			}
			g.Index[k] = len(g.Nodes)
			g.Nodes = append(g.Nodes, &Node{State: out.Next, Key: k, Depth: n.Depth + 1, Parent: i, Via: oi})
		}
	}
	return g
}
