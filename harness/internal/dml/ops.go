package dml

import (
	"fmt"
	"strconv"
	"strings"

	"verif/harness/internal/rv"
)

// Op is one statement: its program text and its documented effect on the reference state.
type Op interface {
	ID() string    // unique and stable inside an alphabet
	Class() string // statement form, used in violation signatures
	SQL() string
	Apply(s *State) Outcome // s is not modified
	Tables() []string       // every table the statement names
}

type TabRef struct{ Tab, Alias string }

func (r TabRef) alias() string {
	if r.Alias != "" {
		return r.Alias
	}
	return r.Tab
}

func (r TabRef) sql() string {
	if r.Alias != "" && r.Alias != r.Tab {
		return r.Tab + " AS " + r.Alias
	}
	return r.Tab
}

// ---- SELECT (only as a source of rows) --------------------------------------------------------------

type Select struct {
	Exprs []Expr
	From  string
	Where Expr
	Raw   string // when set, the text used instead (forms whose result the model does not need)
}

func (q *Select) SQL() string {
	if q.Raw != "" {
		return q.Raw
	}
	p := make([]string, len(q.Exprs))
	for i, e := range q.Exprs {
		p[i] = e.SQL()
	}
	s := "SELECT " + strings.Join(p, ", ") + " FROM " + q.From
	if q.Where != nil {
		s += " WHERE " + q.Where.SQL()
	}
	return s
}

// run returns the rows in table order.
func (q *Select) run(st *State) (rows [][]rv.V, lazy bool, err error) {
	t := st.Tab(q.From)
	if t == nil {
		return nil, false, ErrUnknownTable
	}
	sc := &scope{st: st, b: []binding{{alias: t.Name, tab: t}}}
	var kept [][]rv.V
	for _, r := range t.Rows {
		sc.b[0].row = r
		if q.Where != nil {
			v, err := sc.eval(q.Where)
			if err != nil {
				return nil, false, err
			}
			if !isTrue(v) {
				continue
			}
		}
		kept = append(kept, r)
	}
	if len(t.Rows) == 0 && q.Where != nil && sc.static(q.Where) != nil {
		sc.lazy = true
	}
	for _, r := range kept {
		sc.b[0].row = r
		out := make([]rv.V, len(q.Exprs))
		for i, e := range q.Exprs {
			v, err := sc.eval(e)
			if err != nil {
				return nil, false, err
			}
			out[i] = v
		}
		rows = append(rows, out)
	}
	if len(kept) == 0 {
		for _, e := range q.Exprs {
			if sc.static(e) != nil {
				sc.lazy = true
			}
		}
	}
	return rows, sc.lazy, nil
}

func exprList(es []Expr) string {
	p := make([]string, len(es))
	for i, e := range es {
		p[i] = e.SQL()
	}
	return "(" + strings.Join(p, ", ") + ")"
}

func valuesSQL(rows [][]Expr) string {
	p := make([]string, len(rows))
	for i, r := range rows {
		p[i] = exprList(r)
	}
	return "VALUES " + strings.Join(p, ", ")
}

func colList(cols []string) string {
	if cols == nil {
		return ""
	}
	return " (" + strings.Join(cols, ", ") + ")"
}

func resolveCols(t *Table, cols []string) ([]int, error) {
	if cols == nil {
		idx := make([]int, len(t.Cols))
		for i := range idx {
			idx[i] = i
		}
		return idx, nil
	}
	idx := make([]int, len(cols))
	for i, c := range cols {
		idx[i] = t.ColIndex(c)
		if idx[i] < 0 {
			return nil, ErrUnknownField
		}
	}
	return idx, nil
}

// rowsToInsert evaluates the VALUES list or the SELECT and checks the row lengths.
func rowsToInsert(st *State, ncols int, values [][]Expr, sel *Select) (rows [][]rv.V, lazy bool, err error) {
	if sel != nil {
		if len(sel.Exprs) != ncols {
			// the SELECT is still evaluated first by an implementation; either way the statement fails
			return nil, false, ErrRowLength
		}
		return sel.run(st)
	}
	sc := &scope{st: st}
	for _, r := range values {
		if len(r) != ncols {
			return nil, false, ErrRowLength
		}
		out := make([]rv.V, len(r))
		for i, e := range r {
			v, err := sc.eval(e)
			if err != nil {
				return nil, false, err
			}
			out[i] = v
		}
		rows = append(rows, out)
	}
	return rows, sc.lazy, nil
}

func kindOf(lazy bool) OutKind {
	if lazy {
		return MayFail
	}
	return OK
}

// ---- INSERT -------------------------------------------------------------------------------------

type Insert struct {
	Id   string
	Tab  string
	Cols []string
	Rows [][]Expr
	Sel  *Select
}

func (o *Insert) ID() string { return o.Id }
func (o *Insert) Class() string {
	if o.Sel != nil {
		return "insert-select"
	}
	return "insert-values"
}
func (o *Insert) Tables() []string {
	if o.Sel != nil && o.Sel.From != "" {
		return []string{o.Tab, o.Sel.From}
	}
	return []string{o.Tab}
}
func (o *Insert) SQL() string {
	s := "INSERT INTO " + o.Tab + colList(o.Cols) + " "
	if o.Sel != nil {
		return s + o.Sel.SQL()
	}
	return s + valuesSQL(o.Rows)
}

func (o *Insert) Apply(s *State) Outcome {
	t := s.Tab(o.Tab)
	if t == nil {
		return fail(ErrUnknownTable)
	}
	idx, err := resolveCols(t, o.Cols)
	if err != nil {
		return fail(err)
	}
	rows, lazy, err := rowsToInsert(s, len(idx), o.Rows, o.Sel)
	if err != nil {
		return fail(err)
	}
	n := s.Clone()
	nt := n.Tab(o.Tab)
	for _, r := range rows {
		rec := make([]rv.V, len(nt.Cols)) // unlisted columns are NULL
		for j, ci := range idx {
			rec[ci] = r[j]
		}
		nt.Rows = append(nt.Rows, rec)
	}
	return Outcome{Kind: kindOf(lazy), Next: n, Affected: len(rows), HasAffected: true,
		Logs: []LogLine{{len(rows), "record", "inserted", t.LogName()}}}
}

// ---- joined rows (FROM of the multi-table forms) ----------------------------------------------------

type joined struct {
	sc   *scope
	idx  [][]int // per joined row: the row index in each FROM table
	lazy bool
}

// joinRows builds the rows of FROM ... [JOIN ... ON on] [WHERE where]: nested loops in table order.
func joinRows(st *State, from []TabRef, on, where Expr) (*joined, error) {
	sc := &scope{st: st}
	for _, f := range from {
		t := st.Tab(f.Tab)
		if t == nil {
			return nil, ErrUnknownTable
		}
		sc.b = append(sc.b, binding{alias: f.alias(), tab: t})
	}
	j := &joined{sc: sc}
	cur := make([]int, len(from))
	evaluated := 0
	var rec func(d int) error
	rec = func(d int) error {
		if d == len(from) {
			for i, b := range sc.b {
				sc.b[i].row = b.tab.Rows[cur[i]]
			}
			evaluated++
			for _, cond := range []Expr{on, where} {
				if cond == nil {
					continue
				}
				v, err := sc.eval(cond)
				if err != nil {
					return err
				}
				if !isTrue(v) {
					return nil
				}
			}
			j.idx = append(j.idx, append([]int(nil), cur...))
			return nil
		}
		for i := range sc.b[d].tab.Rows {
			cur[d] = i
			if err := rec(d + 1); err != nil {
				return err
			}
		}
		return nil
	}
	if err := rec(0); err != nil {
		return nil, err
	}
	if evaluated == 0 {
		for _, cond := range []Expr{on, where} {
			if cond != nil && sc.static(cond) != nil {
				sc.lazy = true
			}
		}
	}
	// WHERE is applied to the joined rows after ON; when ON keeps nothing WHERE is evaluated for no record
	if len(j.idx) == 0 && where != nil && on != nil && sc.static(where) != nil {
		sc.lazy = true
	}
	return j, nil
}

func (j *joined) bind(k int) {
	for i := range j.sc.b {
		j.sc.b[i].row = j.sc.b[i].tab.Rows[j.idx[k][i]]
	}
}

func fromSQL(from []TabRef, on Expr) string {
	if len(from) == 1 {
		return "FROM " + from[0].sql()
	}
	if on == nil {
		p := make([]string, len(from))
		for i, f := range from {
			p[i] = f.sql()
		}
		return "FROM " + strings.Join(p, " CROSS JOIN ")
	}
	return "FROM " + from[0].sql() + " JOIN " + from[1].sql() + " ON " + on.SQL()
}

func whereSQL(w Expr) string {
	if w == nil {
		return ""
	}
	return " WHERE " + w.SQL()
}

func targetIndex(from []TabRef, alias string) int {
	for i, f := range from {
		if strings.EqualFold(f.alias(), alias) {
			return i
		}
	}
	return -1
}

func fromTables(from []TabRef) []string {
	p := make([]string, len(from))
	for i, f := range from {
		p[i] = f.Tab
	}
	return p
}

// ---- UPDATE -------------------------------------------------------------------------------------

type SetItem struct {
	Col Col
	Val Expr
}

type Update struct {
	Id      string
	Multi   bool     // UPDATE targets SET .. FROM ..   (false: UPDATE tab SET .. WHERE ..)
	Targets []string // aliases of the tables to update
	From    []TabRef
	On      Expr
	Sets    []SetItem
	Where   Expr
}

func (o *Update) ID() string { return o.Id }
func (o *Update) Class() string {
	if o.Multi {
		return "update-multi"
	}
	return "update"
}
func (o *Update) Tables() []string { return fromTables(o.From) }
func (o *Update) SQL() string {
	sets := make([]string, len(o.Sets))
	for i, s := range o.Sets {
		sets[i] = s.Col.SQL() + " = " + s.Val.SQL()
	}
	if !o.Multi {
		return "UPDATE " + o.From[0].Tab + " SET " + strings.Join(sets, ", ") + whereSQL(o.Where)
	}
	return "UPDATE " + strings.Join(o.Targets, ", ") + " SET " + strings.Join(sets, ", ") + " " + fromSQL(o.From, o.On) + whereSQL(o.Where)
}

func (o *Update) Apply(s *State) Outcome {
	j, err := joinRows(s, o.From, o.On, o.Where)
	if err != nil {
		return fail(err)
	}
	tix := make([]int, len(o.Targets)) // FROM position of each target
	for i, a := range o.Targets {
		tix[i] = targetIndex(o.From, a)
		if tix[i] < 0 {
			return fail(ErrUnknownTable)
		}
	}
	isTarget := func(bi int) bool {
		for _, x := range tix {
			if x == bi {
				return true
			}
		}
		return false
	}
	type cell struct{ tab, row, col int }
	assigned := map[cell]rv.V{}
	order := []cell{}
	for k := range j.idx {
		j.bind(k)
		for _, set := range o.Sets {
			v, err := j.sc.eval(set.Val)
			if err != nil {
				return fail(err)
			}
			bi, ci, err := j.sc.resolve(set.Col)
			if err != nil {
				return fail(err)
			}
			if !isTarget(bi) {
				return fail(ErrNotTarget)
			}
			c := cell{bi, j.idx[k][bi], ci}
			if _, dup := assigned[c]; dup {
				return fail(ErrAmbiguousSet)
			}
			assigned[c] = v
			order = append(order, c)
		}
	}
	lazy := j.sc.lazy
	if len(j.idx) == 0 {
		for _, set := range o.Sets {
			if j.sc.static(set.Val) != nil {
				lazy = true
			}
			if bi, _, err := j.sc.resolve(set.Col); err != nil || !isTarget(bi) {
				lazy = true
			}
		}
	}
	n := s.Clone()
	rowsHit := make([]map[int]bool, len(o.From))
	for i := range rowsHit {
		rowsHit[i] = map[int]bool{}
	}
	for _, c := range order {
		n.Tab(o.From[c.tab].Tab).Rows[c.row][c.col] = assigned[c]
		rowsHit[c.tab][c.row] = true
	}
	out := Outcome{Kind: kindOf(lazy), Next: n, HasAffected: true}
	for _, bi := range tix {
		out.Logs = append(out.Logs, LogLine{len(rowsHit[bi]), "record", "updated", s.Tab(o.From[bi].Tab).LogName()})
		out.Affected += len(rowsHit[bi])
	}
	return out
}

// ---- DELETE -------------------------------------------------------------------------------------

type Delete struct {
	Id      string
	Multi   bool // DELETE targets FROM ..   (false: DELETE FROM tab WHERE ..)
	Targets []string
	From    []TabRef
	On      Expr
	Where   Expr
}

func (o *Delete) ID() string { return o.Id }
func (o *Delete) Class() string {
	if o.Multi {
		return "delete-multi"
	}
	return "delete"
}
func (o *Delete) Tables() []string { return fromTables(o.From) }
func (o *Delete) SQL() string {
	if !o.Multi {
		return "DELETE FROM " + o.From[0].Tab + whereSQL(o.Where)
	}
	return "DELETE " + strings.Join(o.Targets, ", ") + " " + fromSQL(o.From, o.On) + whereSQL(o.Where)
}

func (o *Delete) Apply(s *State) Outcome {
	j, err := joinRows(s, o.From, o.On, o.Where)
	if err != nil {
		return fail(err)
	}
	tix := make([]int, len(o.Targets))
	for i, a := range o.Targets {
		tix[i] = targetIndex(o.From, a)
		if tix[i] < 0 {
			return fail(ErrUnknownTable)
		}
	}
	n := s.Clone()
	out := Outcome{Kind: kindOf(j.sc.lazy), Next: n, HasAffected: true}
	for _, bi := range tix {
		gone := map[int]bool{}
		for k := range j.idx {
			gone[j.idx[k][bi]] = true
		}
		nt := n.Tab(o.From[bi].Tab)
		kept := nt.Rows[:0:0]
		for i, r := range nt.Rows {
			if !gone[i] {
				kept = append(kept, r)
			}
		}
		nt.Rows = kept
		out.Logs = append(out.Logs, LogLine{len(gone), "record", "deleted", nt.LogName()})
		out.Affected += len(gone)
	}
	return out
}

// ---- REPLACE ------------------------------------------------------------------------------------

type Replace struct {
	Id   string
	Tab  string
	Cols []string
	Keys []string
	Rows [][]Expr
	Sel  *Select
}

func (o *Replace) ID() string { return o.Id }
func (o *Replace) Class() string {
	if o.Sel != nil {
		return "replace-select"
	}
	return "replace-values"
}
func (o *Replace) Tables() []string {
	if o.Sel != nil && o.Sel.From != "" {
		return []string{o.Tab, o.Sel.From}
	}
	return []string{o.Tab}
}
func (o *Replace) SQL() string {
	s := "REPLACE INTO " + o.Tab + colList(o.Cols) + " USING (" + strings.Join(o.Keys, ", ") + ") "
	if o.Sel != nil {
		return s + o.Sel.SQL()
	}
	return s + valuesSQL(o.Rows)
}

func (o *Replace) Apply(s *State) Outcome {
	t := s.Tab(o.Tab)
	if t == nil {
		return fail(ErrUnknownTable)
	}
	idx, err := resolveCols(t, o.Cols)
	if err != nil {
		return fail(err)
	}
	kidx, err := resolveCols(t, o.Keys)
	if err != nil {
		return fail(err)
	}
	inList := func(ci int) int {
		for j, x := range idx {
			if x == ci {
				return j
			}
		}
		return -1
	}
	kpos := make([]int, len(kidx)) // position of each key inside a VALUES row
	for i, k := range kidx {
		kpos[i] = inList(k)
		if kpos[i] < 0 {
			return fail(ErrKeyNotSet)
		}
	}
	rows, lazy, err := rowsToInsert(s, len(idx), o.Rows, o.Sel)
	if err != nil {
		return fail(err)
	}
	for _, r := range rows {
		for _, p := range kpos {
			if r[p].K == rv.Null {
				// does a NULL key match a NULL key? SQL says no, bucket equality says yes
				return Outcome{Kind: Unspecified, Note: "NULL key in the rows to replace"}
			}
		}
	}
	keyEq := func(existing []rv.V, r []rv.V) bool {
		for i, k := range kidx {
			if !rv.Equivalent(existing[k], r[kpos[i]]) {
				return false
			}
		}
		return true
	}
	rowEq := func(a, b []rv.V) bool {
		for _, p := range kpos {
			if !rv.Equivalent(a[p], b[p]) {
				return false
			}
		}
		return true
	}
	isKey := func(ci int) bool {
		for _, k := range kidx {
			if k == ci {
				return true
			}
		}
		return false
	}
	n := s.Clone()
	nt := n.Tab(o.Tab)
	var alt *State
	matchedRow := make([]bool, len(rows))
	updated := 0
	note := ""
	for i, ex := range t.Rows {
		var ms []int
		for jx, r := range rows {
			if keyEq(ex, r) {
				ms = append(ms, jx)
				matchedRow[jx] = true
			}
		}
		if len(ms) == 0 {
			continue
		}
		updated++
		apply := func(st *State, r []rv.V) {
			for jx, ci := range idx {
				if !isKey(ci) {
					st.Tab(o.Tab).Rows[i][ci] = r[jx]
				}
			}
		}
		if len(ms) > 1 {
			// several rows to replace carry the key of this record: the first or the last may win, none is inserted
			note = "duplicate-key"
			if alt == nil {
				alt = n.Clone()
			}
			apply(alt, rows[ms[len(ms)-1]])
		} else if alt != nil {
			apply(alt, rows[ms[0]])
		}
		apply(n, rows[ms[0]])
	}
	var tail [][]rv.V
	for jx, r := range rows {
		if matchedRow[jx] {
			continue
		}
		for _, prev := range tail {
			if rowEq(prev, r) {
				// two new rows with one key: inserted twice (set reading) or inserted then updated (sequential reading)
				return Outcome{Kind: Unspecified, Note: "two unmatched rows share a key"}
			}
		}
		tail = append(tail, r)
	}
	for _, st := range []*State{n, alt} {
		if st == nil {
			continue
		}
		tt := st.Tab(o.Tab)
		for _, r := range tail {
			rec := make([]rv.V, len(tt.Cols))
			for jx, ci := range idx {
				rec[ci] = r[jx]
			}
			tt.Rows = append(tt.Rows, rec)
		}
	}
	_ = nt
	rowsMatched := 0
	for _, m := range matchedRow {
		if m {
			rowsMatched++
		}
	}
	out := Outcome{Kind: kindOf(lazy), Next: n, HasAffected: true, Affected: updated + len(tail), AffectedAlt: -1, Tail: len(tail), TailTable: o.Tab, Note: note,
		Logs: []LogLine{{updated + len(tail), "record", "replaced", t.LogName()}}}
	if note == "duplicate-key" && rowsMatched != updated {
		out.AffectedAlt = rowsMatched + len(tail)
	}
	if alt != nil {
		out.Alt = []*State{alt}
	}
	return out
}

// ---- ALTER TABLE --------------------------------------------------------------------------------

type NewCol struct {
	Name    string
	Default Expr
}

type AddCols struct {
	Id   string
	Tab  string
	Cols []NewCol
	Pos  string // "", FIRST, LAST, BEFORE, AFTER
	Ref  string
}

func (o *AddCols) ID() string       { return o.Id }
func (o *AddCols) Class() string    { return "alter-add" }
func (o *AddCols) Tables() []string { return []string{o.Tab} }
func (o *AddCols) SQL() string {
	p := make([]string, len(o.Cols))
	for i, c := range o.Cols {
		p[i] = c.Name
		if c.Default != nil {
			p[i] += " DEFAULT " + c.Default.SQL()
		}
	}
	s := "ALTER TABLE " + o.Tab + " ADD "
	if len(p) == 1 {
		s += p[0]
	} else {
		s += "(" + strings.Join(p, ", ") + ")"
	}
	switch o.Pos {
	case "FIRST", "LAST":
		s += " " + o.Pos
	case "BEFORE", "AFTER":
		s += " " + o.Pos + " " + o.Ref
	}
	return s
}

func (o *AddCols) Apply(s *State) Outcome {
	t := s.Tab(o.Tab)
	if t == nil {
		return fail(ErrUnknownTable)
	}
	at := len(t.Cols) // LAST is the default position
	switch o.Pos {
	case "FIRST":
		at = 0
	case "BEFORE", "AFTER":
		ci := t.ColIndex(o.Ref)
		if ci < 0 {
			return fail(ErrUnknownField)
		}
		at = ci
		if o.Pos == "AFTER" {
			at = ci + 1
		}
	}
	names := map[string]bool{}
	for _, c := range t.Cols {
		names[strings.ToUpper(c)] = true
	}
	for _, c := range o.Cols {
		if names[strings.ToUpper(c.Name)] {
			return fail(ErrDuplicateField)
		}
		names[strings.ToUpper(c.Name)] = true
	}
	sc := &scope{st: s, b: []binding{{alias: t.Name, tab: t}}}
	n := s.Clone()
	nt := n.Tab(o.Tab)
	ins := func(row []rv.V, vals []rv.V) []rv.V {
		out := make([]rv.V, 0, len(row)+len(vals))
		out = append(out, row[:at]...)
		out = append(out, vals...)
		return append(out, row[at:]...)
	}
	for i, r := range t.Rows {
		sc.b[0].row = r
		vals := make([]rv.V, len(o.Cols))
		for k, c := range o.Cols {
			if c.Default == nil {
				continue // NULL
			}
			v, err := sc.eval(c.Default)
			if err != nil {
				return fail(err)
			}
			vals[k] = v
		}
		nt.Rows[i] = ins(r, vals)
	}
	if len(t.Rows) == 0 {
		for _, c := range o.Cols {
			if c.Default != nil && sc.static(c.Default) != nil {
				sc.lazy = true
			}
		}
	}
	cols := make([]string, 0, len(t.Cols)+len(o.Cols))
	cols = append(cols, t.Cols[:at]...)
	for _, c := range o.Cols {
		cols = append(cols, c.Name)
	}
	nt.Cols = append(cols, t.Cols[at:]...)
	return Outcome{Kind: kindOf(sc.lazy), Next: n, Logs: []LogLine{{len(o.Cols), "field", "added", t.LogName()}}}
}

type DropCols struct {
	Id   string
	Tab  string
	Cols []string
}

func (o *DropCols) ID() string       { return o.Id }
func (o *DropCols) Class() string    { return "alter-drop" }
func (o *DropCols) Tables() []string { return []string{o.Tab} }
func (o *DropCols) SQL() string {
	if len(o.Cols) == 1 {
		return "ALTER TABLE " + o.Tab + " DROP " + o.Cols[0]
	}
	return "ALTER TABLE " + o.Tab + " DROP (" + strings.Join(o.Cols, ", ") + ")"
}
func (o *DropCols) Apply(s *State) Outcome {
	t := s.Tab(o.Tab)
	if t == nil {
		return fail(ErrUnknownTable)
	}
	drop := map[int]bool{}
	for _, c := range o.Cols {
		ci := t.ColIndex(c)
		if ci < 0 {
			return fail(ErrUnknownField)
		}
		drop[ci] = true
	}
	n := s.Clone()
	nt := n.Tab(o.Tab)
	nt.Cols = nil
	for i, c := range t.Cols {
		if !drop[i] {
			nt.Cols = append(nt.Cols, c)
		}
	}
	for ri, r := range t.Rows {
		nr := make([]rv.V, 0, len(nt.Cols))
		for i, c := range r {
			if !drop[i] {
				nr = append(nr, c)
			}
		}
		nt.Rows[ri] = nr
	}
	return Outcome{Kind: OK, Next: n, Logs: []LogLine{{len(drop), "field", "dropped", t.LogName()}}}
}

type RenameCol struct {
	Id       string
	Tab      string
	Old, New string
}

func (o *RenameCol) ID() string       { return o.Id }
func (o *RenameCol) Class() string    { return "alter-rename" }
func (o *RenameCol) Tables() []string { return []string{o.Tab} }
func (o *RenameCol) SQL() string {
	return "ALTER TABLE " + o.Tab + " RENAME " + o.Old + " TO " + o.New
}
func (o *RenameCol) Apply(s *State) Outcome {
	t := s.Tab(o.Tab)
	if t == nil {
		return fail(ErrUnknownTable)
	}
	if t.ColIndex(o.New) >= 0 {
		return fail(ErrDuplicateField)
	}
	ci := t.ColIndex(o.Old)
	if ci < 0 {
		return fail(ErrUnknownField)
	}
	n := s.Clone()
	n.Tab(o.Tab).Cols[ci] = o.New
	return Outcome{Kind: OK, Next: n, Logs: []LogLine{{1, "field", "renamed", t.LogName()}}}
}

// ---- CREATE TABLE (only C08 uses it: the failing forms and the corrected statement) ------------------

type Create struct {
	Id   string
	File string // x.csv
	Cols []string
	Sel  *Select
	// Fails tells whether the statement must fail in state s (nil: decided from Cols/Sel).
	Fails func(s *State) bool
}

func (o *Create) ID() string    { return o.Id }
func (o *Create) Class() string { return "create-table" }
func (o *Create) Tables() []string {
	if o.Sel != nil && o.Sel.From != "" {
		return []string{o.Sel.From}
	}
	return nil
}
func (o *Create) SQL() string {
	s := "CREATE TABLE `" + o.File + "`"
	if o.Cols != nil {
		s += " (" + strings.Join(o.Cols, ", ") + ")"
	}
	if o.Sel != nil {
		s += " AS " + o.Sel.SQL()
	}
	return s
}

// Apply: the new table is not part of the reference state; Next is s itself. Content() gives the file.
func (o *Create) Apply(s *State) Outcome {
	if o.Fails != nil {
		if o.Fails(s) {
			return fail(fmt.Errorf("create table form that must fail"))
		}
		return Outcome{Kind: Unspecified, Note: "not failing in this state"}
	}
	seen := map[string]bool{}
	for _, c := range o.Cols {
		if seen[strings.ToUpper(c)] {
			return fail(ErrDuplicateField)
		}
		seen[strings.ToUpper(c)] = true
	}
	if o.Sel != nil {
		_, lazy, err := o.Sel.run(s)
		if err != nil {
			return fail(err)
		}
		if o.Cols != nil && len(o.Cols) != len(o.Sel.Exprs) {
			return fail(ErrRowLength)
		}
		if lazy {
			return Outcome{Kind: MayFail, Next: s.Clone()}
		}
	}
	return Outcome{Kind: OK, Next: s.Clone()}
}

// Content is the committed file of a successful CREATE TABLE (Cols given).
func (o *Create) Content(s *State) string {
	t := &Table{Cols: o.Cols}
	if o.Sel != nil {
		rows, _, _ := o.Sel.run(s)
		t.Rows = rows
	}
	return t.CSV()
}

// ---- a statement executed inside a nested block -----------------------------------------------------

// Nested runs Inner at the bottom of a child block (IF, WHILE, or the body of a user-defined function declared
// and called inside an IF block so that nothing it declares outlives the step). The documented effect is the
// effect of Inner: a data-changing statement acts on the table wherever the table was declared.
type Nested struct {
	Inner Op
	Kind  string // "if" | "while" | "func" | "commit" (a COMMIT before the statement)
}

func (n *Nested) ID() string    { return n.Inner.ID() + "@" + n.Kind }
func (n *Nested) Class() string { return n.Inner.Class() }
func (n *Nested) Apply(s *State) Outcome {
	if n.Kind == "commit" {
		return n.Inner.Apply(Committed(s))
	}
	return n.Inner.Apply(s)
}

// Committed is the state a transaction works on after a COMMIT: file tables are read again from what was written,
// so their cells are the texts of the file (temporary tables and the standard input keep their typed values).
func Committed(s *State) *State {
	c := s.Clone()
	for _, t := range c.Tabs {
		if t.Kind != File {
			continue
		}
		for _, r := range t.Rows {
			for i, v := range r {
				if v.K == rv.Int {
					r[i] = rv.S(strconv.FormatInt(v.I, 10))
				}
			}
		}
	}
	return c
}
func (n *Nested) Tables() []string { return n.Inner.Tables() }
func (n *Nested) SQL() string {
	in := strings.TrimRight(strings.TrimSpace(n.Inner.SQL()), ";")
	switch n.Kind {
	case "while":
		return "IF TRUE THEN VAR @nw := 0; WHILE @nw < 1 DO @nw := @nw + 1; " + in + "; END WHILE; END IF;"
	case "func":
		return "IF TRUE THEN DECLARE nf FUNCTION () AS BEGIN " + in + "; RETURN 1; END; VAR @nr := nf(); END IF;"
	case "commit":
		// what the transaction has changed so far is committed first: the statement works on the committed tables
		return "COMMIT; " + in + ";"
	}
	return "IF TRUE THEN " + in + "; END IF;"
}

// Unwrap returns the statement itself for a Nested one.
func Unwrap(o Op) Op {
	if n, ok := o.(*Nested); ok {
		return n.Inner
	}
	return o
}

// ---- a statement that must fail for a reason outside the model ------------------------------------------

// RawFail is program text the documented rules refuse whatever the tables hold (e.g. a table named twice in one
// FROM clause). It changes nothing.
type RawFail struct {
	Id, Text, Cls string
	Tabs          []string
}

func (r *RawFail) ID() string             { return r.Id }
func (r *RawFail) Class() string          { return r.Cls }
func (r *RawFail) SQL() string            { return r.Text }
func (r *RawFail) Tables() []string       { return r.Tabs }
func (r *RawFail) Apply(s *State) Outcome { return fail(ErrRefused) }
