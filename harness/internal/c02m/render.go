package c02m

import (
	"fmt"
	"strings"
)

// Render spells table t as a file in dialect d the way the formats are defined (RFC 4180 quoting
// with "quote only when needed" unless EncloseAll, ltsv.org, fixed byte columns, RFC 8259 compact
// JSON with csvq's three documented escape styles). finalBreak: the file ends with a line break.
// ok=false when the dialect cannot spell the table.
func Render(t Table, d Dialect, finalBreak bool) ([]byte, bool) {
	enc := d.WriteEnc()
	lb := d.LineBreak()
	var lines []string
	switch d.Format {
	case "CSV", "TSV":
		delim := string(d.Delimiter())
		field := func(c Cell, header bool) string {
			s := c.Text()
			if c.K == KNull {
				return ""
			}
			need := strings.Contains(s, delim) || strings.ContainsAny(s, "\"\r\n")
			if need || (d.EncloseAll && (c.K == KStr)) {
				return `"` + strings.ReplaceAll(s, `"`, `""`) + `"`
			}
			return s
		}
		if !d.WithoutHeader {
			fs := make([]string, len(t.Header))
			for i, h := range t.Header {
				fs[i] = field(Str(h), true)
			}
			lines = append(lines, strings.Join(fs, delim))
		}
		for _, r := range t.Rows {
			fs := make([]string, len(r))
			for i, c := range r {
				fs[i] = field(c, false)
			}
			lines = append(lines, strings.Join(fs, delim))
		}
	case "LTSV":
		for _, r := range t.Rows {
			fs := make([]string, len(r))
			for i, c := range r {
				fs[i] = t.Header[i] + ":" + c.Text()
			}
			lines = append(lines, strings.Join(fs, "\t"))
		}
	case "FIXED":
		pos := d.Positions()
		if pos == nil {
			// SPACES: columns as wide as their widest word, one blank between columns
			pos = make([]int, len(t.Header))
			w := make([]int, len(t.Header))
			upd := func(i int, s string) {
				if n := ByteWidth(s, enc); n > w[i] {
					w[i] = n
				}
			}
			if d.HasHeaderLine() {
				for i, h := range t.Header {
					upd(i, h)
				}
			}
			for _, r := range t.Rows {
				for i, c := range r {
					upd(i, c.Text())
				}
			}
			line := func(fs []string) string {
				var sb strings.Builder
				for i, s := range fs {
					if i > 0 {
						sb.WriteByte(' ')
					}
					sb.WriteString(s)
					sb.WriteString(strings.Repeat(" ", w[i]-ByteWidth(s, enc)))
				}
				return sb.String()
			}
			if d.HasHeaderLine() {
				lines = append(lines, line(t.Header))
			}
			for _, r := range t.Rows {
				fs := make([]string, len(r))
				for i, c := range r {
					fs[i] = c.Text()
				}
				lines = append(lines, line(fs))
			}
			break
		}
		if len(pos) != len(t.Header) {
			return nil, false
		}
		bad := false
		line := func(fs []string) string {
			var sb strings.Builder
			start := 0
			for i, s := range fs {
				w := pos[i] - start
				start = pos[i]
				n := ByteWidth(s, enc)
				if n > w {
					bad = true
					n = w
				}
				sb.WriteString(s)
				sb.WriteString(strings.Repeat(" ", w-n))
			}
			return sb.String()
		}
		if d.HasHeaderLine() {
			lines = append(lines, line(t.Header))
		}
		for _, r := range t.Rows {
			fs := make([]string, len(r))
			for i, c := range r {
				fs[i] = c.Text()
			}
			lines = append(lines, line(fs))
		}
		if bad {
			return nil, false
		}
		if d.SingleLine() {
			lb = ""
			finalBreak = false
		}
	case "JSON", "JSONL":
		objs := make([]string, len(t.Rows))
		for i, r := range t.Rows {
			ms := make([]string, len(r))
			for j, c := range r {
				ms[j] = jsonString(t.Header[j], d.Escape) + ":" + jsonValue(c, d.Escape)
			}
			objs[i] = "{" + strings.Join(ms, ",") + "}"
		}
		if d.Pretty {
			// any RFC 8259 white space will do; this is the common two-space layout
			for i, r := range t.Rows {
				ms := make([]string, len(r))
				for j, c := range r {
					ms[j] = "    " + jsonString(t.Header[j], d.Escape) + ": " + jsonValue(c, d.Escape)
				}
				objs[i] = "  {" + lb + strings.Join(ms, ","+lb) + lb + "  }"
			}
			if d.Format == "JSON" {
				if len(objs) == 0 {
					lines = []string{"[]"}
				} else {
					lines = []string{"[" + lb + strings.Join(objs, ","+lb) + lb + "]"}
				}
				break
			}
			return nil, false // pretty-printed objects are not JSON Lines
		}
		if d.Format == "JSON" {
			lines = []string{"[" + strings.Join(objs, ",") + "]"}
		} else {
			lines = objs
		}
	default:
		return nil, false
	}
	text := strings.Join(lines, lb)
	if finalBreak && (len(lines) > 0) {
		text += lb
	}
	body, ok := EncodeText(text, enc)
	if !ok {
		return nil, false
	}
	return append(append([]byte(nil), BOM(enc)...), body...), true
}

func jsonValue(c Cell, escape string) string {
	switch c.K {
	case KNull:
		return "null"
	case KInt, KBool:
		return c.Text()
	}
	return jsonString(c.S, escape)
}

// the three escape styles of the manual (--json-escape): BACKSLASH, HEX (special characters as
// \uXXXX), HEXALL (every character as \uXXXX)
func jsonString(s string, escape string) string {
	var sb strings.Builder
	sb.WriteByte('"')
	hex := func(r rune) {
		if r >= 0x10000 {
			r -= 0x10000
			fmt.Fprintf(&sb, "\\u%04x\\u%04x", 0xd800+(r>>10), 0xdc00+(r&0x3ff))
			return
		}
		fmt.Fprintf(&sb, "\\u%04x", r)
	}
	for _, r := range s {
		switch {
		case escape == "HEXALL":
			hex(r)
		case r == '\\' || r == '"' || r == '/' || r == '\b' || r == '\f' || r == '\n' || r == '\r' || r == '\t':
			if escape == "HEX" {
				hex(r)
			} else {
				sb.WriteByte('\\')
				switch r {
				case '\b':
					sb.WriteByte('b')
				case '\f':
					sb.WriteByte('f')
				case '\n':
					sb.WriteByte('n')
				case '\r':
					sb.WriteByte('r')
				case '\t':
					sb.WriteByte('t')
				default:
					sb.WriteRune(r)
				}
			}
		case r < 0x20:
			hex(r)
		default:
			sb.WriteRune(r)
		}
	}
	sb.WriteByte('"')
	return sb.String()
}

// EndsWith reports which of the three line breaks (encoded in enc) data ends with, "" if none.
func EndingBreak(data []byte, enc string) string {
	for _, name := range []string{"CRLF", "LF", "CR"} {
		b, _ := EncodeText(Dialect{LB: name}.LineBreak(), enc)
		if len(data) >= len(b) && string(data[len(data)-len(b):]) == string(b) {
			return name
		}
	}
	return ""
}
