// Package c02m is the reference model of property C02: what a table looks like
// after it has been written in one of csvq's six file formats and read back
// under the same settings, and what the bytes of a file in a given dialect are.
//
// It is written from the manual (docs/_posts/2006-01-02-command.md, -json.md,
// -alter-table-query.md), RFC 4180, ltsv.org and RFC 8259. It shares no code
// with lib/query or go-text (character encodings come from golang.org/x/text
// and unicode/utf16).
package c02m

import (
	"fmt"
	"strconv"
	"strings"
	"unicode/utf16"
	"unicode/utf8"

	"golang.org/x/text/encoding/japanese"
)

type Kind int

const (
	KNull Kind = iota
	KStr
	KInt
	KBool
	KFloat
)

type Cell struct {
	K Kind   `json:"k"`
	S string `json:"s,omitempty"`
	I int64  `json:"i,omitempty"`
	B bool   `json:"b,omitempty"`
}

func Null() Cell        { return Cell{K: KNull} }
func Str(s string) Cell { return Cell{K: KStr, S: s} }
func Int(i int64) Cell  { return Cell{K: KInt, I: i} }
func Bool(b bool) Cell  { return Cell{K: KBool, B: b} }

// Text is the text of the cell as every text format spells it (NULL has no text).
func (c Cell) Text() string {
	switch c.K {
	case KStr:
		return c.S
	case KInt:
		return strconv.FormatInt(c.I, 10)
	case KBool:
		return strconv.FormatBool(c.B)
	}
	return ""
}

func (c Cell) Key() string {
	switch c.K {
	case KNull:
		return "NULL"
	case KStr:
		return strconv.Quote(c.S)
	case KInt:
		return "int:" + strconv.FormatInt(c.I, 10)
	case KBool:
		return "bool:" + strconv.FormatBool(c.B)
	}
	return "?"
}

type Table struct {
	Header []string `json:"header"`
	Rows   [][]Cell `json:"rows"`
}

func (t Table) Key() string {
	var sb strings.Builder
	sb.WriteString(strconv.Quote(strings.Join(t.Header, "\x1f")))
	for _, r := range t.Rows {
		sb.WriteByte('[')
		for i, c := range r {
			if i > 0 {
				sb.WriteByte('|')
			}
			sb.WriteString(c.Key())
		}
		sb.WriteByte(']')
	}
	return sb.String()
}

func (t Table) Clone() Table {
	n := Table{Header: append([]string(nil), t.Header...)}
	for _, r := range t.Rows {
		n.Rows = append(n.Rows, append([]Cell(nil), r...))
	}
	return n
}

// Dialect: the format settings a table is written with (and, mirrored, read back with).
type Dialect struct {
	Format        string `json:"format"` // CSV TSV LTSV FIXED JSON JSONL
	Delim         string `json:"delim,omitempty"`
	Enc           string `json:"enc"` // UTF8 UTF8M UTF16 UTF16BE UTF16LE UTF16BEM UTF16LEM SJIS
	LB            string `json:"lb"`  // LF CRLF CR
	EncloseAll    bool   `json:"enclose_all,omitempty"`
	WithoutHeader bool   `json:"without_header,omitempty"`
	Strip         bool   `json:"strip,omitempty"`
	Pos           string `json:"pos,omitempty"`    // FIXED: SPACES | [a,b] | S[a,b]
	Escape        string `json:"escape,omitempty"` // BACKSLASH HEX HEXALL
	Pretty        bool   `json:"pretty,omitempty"`
}

func (d Dialect) Key() string {
	return fmt.Sprintf("%s d=%q e=%s lb=%s Q=%v N=%v T=%v pos=%s esc=%s P=%v", d.Format, d.Delim, d.Enc, d.LB, d.EncloseAll, d.WithoutHeader, d.Strip, d.Pos, d.Escape, d.Pretty)
}

func (d Dialect) Delimiter() rune {
	if d.Format == "TSV" {
		return '\t'
	}
	if d.Delim == "" {
		return ','
	}
	r, _ := utf8.DecodeRuneInString(d.Delim)
	return r
}

func (d Dialect) LineBreak() string {
	switch d.LB {
	case "CRLF":
		return "\r\n"
	case "CR":
		return "\r"
	}
	return "\n"
}

func (d Dialect) SingleLine() bool { return strings.HasPrefix(d.Pos, "S[") }
func (d Dialect) Spaces() bool     { return d.Format == "FIXED" && (d.Pos == "" || d.Pos == "SPACES") }

// Positions: the explicit delimiter positions (byte offsets of the column ends), nil for SPACES.
func (d Dialect) Positions() []int {
	p := strings.TrimPrefix(d.Pos, "S")
	if !strings.HasPrefix(p, "[") {
		return nil
	}
	var out []int
	for _, f := range strings.Split(strings.Trim(p, "[]"), ",") {
		n, err := strconv.Atoi(strings.TrimSpace(f))
		if err != nil {
			return nil
		}
		out = append(out, n)
	}
	return out
}

func (d Dialect) IsJSON() bool { return d.Format == "JSON" || d.Format == "JSONL" }

// HasHeaderLine: does a file in this dialect carry the column names.
func (d Dialect) HasHeaderLine() bool {
	switch d.Format {
	case "CSV", "TSV":
		return !d.WithoutHeader
	case "FIXED":
		return !d.WithoutHeader && !d.SingleLine()
	}
	return true // LTSV labels, JSON member names
}

// ---- character encodings ----------------------------------------------------------------------

func IsUTF16(enc string) bool { return strings.HasPrefix(enc, "UTF16") }

// the effective encoding csvq documents for writing: UTF16 is an alias of UTF16BE; JSON is UTF-8 only
func (d Dialect) WriteEnc() string {
	if d.IsJSON() {
		return "UTF8"
	}
	if d.Enc == "UTF16" {
		return "UTF16BE"
	}
	if d.Enc == "" {
		return "UTF8"
	}
	return d.Enc
}

func BOM(enc string) []byte {
	switch enc {
	case "UTF8M":
		return []byte{0xef, 0xbb, 0xbf}
	case "UTF16BEM":
		return []byte{0xfe, 0xff}
	case "UTF16LEM":
		return []byte{0xff, 0xfe}
	}
	return nil
}

// EncodeText encodes s (without a byte order mark). ok=false: a character has no code in enc.
func EncodeText(s string, enc string) ([]byte, bool) {
	switch enc {
	case "UTF8", "UTF8M", "":
		return []byte(s), true
	case "UTF16", "UTF16BE", "UTF16BEM", "UTF16LE", "UTF16LEM":
		le := enc == "UTF16LE" || enc == "UTF16LEM"
		out := make([]byte, 0, 2*len(s))
		for _, u := range utf16.Encode([]rune(s)) {
			if le {
				out = append(out, byte(u), byte(u>>8))
			} else {
				out = append(out, byte(u>>8), byte(u))
			}
		}
		return out, true
	case "SJIS":
		b, err := japanese.ShiftJIS.NewEncoder().Bytes([]byte(s))
		if err != nil {
			return nil, false
		}
		return b, true
	}
	return nil, false
}

func Encodable(s string, enc string) bool {
	if enc == "SJIS" {
		_, ok := EncodeText(s, enc)
		return ok
	}
	return true
}

// ByteWidth: the number of bytes s takes in enc (fixed-length positions count bytes).
func ByteWidth(s string, enc string) int {
	b, ok := EncodeText(s, enc)
	if !ok {
		return len(s)
	}
	return len(b)
}

// ---- what a written table must read back as -----------------------------------------------------

type Expect struct {
	// Refuse: the format cannot spell the table; csvq must answer with an error and write nothing.
	Refuse string
	// Skip: the manual leaves the outcome open (nothing is compared).
	Skip string
	// Nothing: there is nothing to write (no header line and no record); nothing is compared.
	Nothing bool

	Header []string
	Rows   [][]Cell
	// NullIsEmpty: the format has one spelling for NULL and for the empty text.
	NullIsEmpty bool
	// HeaderFree: the format has no place for column names when there is no record (LTSV, JSON, JSONL).
	HeaderFree bool
}

func autoHeader(n int) []string {
	h := make([]string, n)
	for i := range h {
		h[i] = "c" + strconv.Itoa(i+1)
	}
	return h
}

func isLabelByte(r rune) bool {
	return r >= '0' && r <= '9' || r >= 'A' && r <= 'Z' || r >= 'a' && r <= 'z' || r == '_' || r == '.' || r == '-'
}

// ASCII white space and the two Latin-1 blanks: what "edge blanks" of a fixed-length field are.
func isBlank(r rune) bool {
	switch r {
	case ' ', '\t', '\n', '\v', '\f', '\r', 0x85, 0xa0:
		return true
	}
	return false
}

func TrimBlanks(s string) string { return strings.TrimFunc(s, isBlank) }

func hasBlank(s string) bool { return strings.IndexFunc(s, isBlank) >= 0 }

func hasLineBreak(s string) bool { return strings.ContainsAny(s, "\r\n") }

// Reload computes what table t, written in dialect d, must read back as under the same settings.
func Reload(t Table, d Dialect) Expect {
	ncol := len(t.Header)
	enc := d.WriteEnc()
	texts := func(withHeader bool) []string {
		var all []string
		if withHeader {
			all = append(all, t.Header...)
		}
		for _, r := range t.Rows {
			for _, c := range r {
				all = append(all, c.Text())
			}
		}
		return all
	}
	for _, s := range texts(d.HasHeaderLine()) {
		if !Encodable(s, enc) {
			return Expect{Refuse: "a character has no code in " + enc}
		}
	}
	ex := Expect{Header: append([]string(nil), t.Header...)}
	for _, r := range t.Rows {
		ex.Rows = append(ex.Rows, append([]Cell(nil), r...))
	}

	switch d.Format {
	case "CSV", "TSV":
		ex.NullIsEmpty = true
		if d.WithoutHeader {
			if len(t.Rows) == 0 {
				return Expect{Nothing: true}
			}
			ex.Header = autoHeader(ncol)
		}
		return ex

	case "LTSV":
		ex.NullIsEmpty = true
		ex.HeaderFree = true
		if len(t.Rows) == 0 {
			return Expect{Nothing: true}
		}
		seen := map[string]bool{}
		for _, h := range t.Header {
			if h == "" {
				return Expect{Refuse: "empty label"}
			}
			for _, r := range h {
				if !isLabelByte(r) {
					return Expect{Refuse: fmt.Sprintf("label character %U is outside [0-9A-Za-z_.-]", r)}
				}
			}
			if seen[h] {
				return Expect{Refuse: "two fields with one label"}
			}
			seen[h] = true
		}
		for _, s := range texts(false) {
			for _, r := range s {
				if r == '\t' || r == '\r' || r == '\n' || r == 0 {
					return Expect{Refuse: fmt.Sprintf("field value character %U", r)}
				}
			}
		}
		return ex

	case "FIXED":
		ex.NullIsEmpty = true
		if d.SingleLine() || d.WithoutHeader {
			if len(t.Rows) == 0 {
				return Expect{Nothing: true}
			}
			ex.Header = autoHeader(ncol)
		}
		for _, s := range texts(d.HasHeaderLine()) {
			if hasLineBreak(s) {
				return Expect{Refuse: "a line break inside a fixed-length field"}
			}
		}
		if d.Spaces() {
			// "SPACES splits lines automatically by spaces": only tables whose every written field is a
			// blank-free, non-empty word are certain to be split back into the same fields.
			for _, s := range texts(d.HasHeaderLine()) {
				if s == "" || hasBlank(s) {
					return Expect{Skip: "automatic (SPACES) delimiting of empty fields or fields containing blanks"}
				}
			}
		} else {
			pos := d.Positions()
			if len(pos) != ncol {
				return Expect{Skip: "number of delimiter positions differs from the number of fields"}
			}
			start := 0
			for i, end := range pos {
				w := end - start
				start = end
				check := func(s string) bool { return ByteWidth(s, enc) <= w }
				if d.HasHeaderLine() && !check(t.Header[i]) {
					return Expect{Refuse: "header longer than its field"}
				}
				for _, r := range t.Rows {
					if !check(r[i].Text()) {
						return Expect{Refuse: "value longer than its field"}
					}
				}
			}
		}
		// fixed-length drops edge blanks
		if d.HasHeaderLine() {
			for i := range ex.Header {
				ex.Header[i] = TrimBlanks(ex.Header[i])
				if ex.Header[i] == "" {
					return Expect{Skip: "blank column name in a fixed-length header"}
				}
			}
		}
		for _, r := range ex.Rows {
			for j := range r {
				r[j] = Str(TrimBlanks(r[j].Text()))
			}
		}
		return ex

	case "JSON", "JSONL":
		ex.HeaderFree = true
		seen := map[string]bool{}
		for _, h := range t.Header {
			if strings.ContainsAny(h, ".`'\"\\[]") || h == "" {
				return Expect{Skip: "column name is a JSON path expression (periods make child objects)"}
			}
			if seen[h] {
				return Expect{Refuse: "two members with one name"}
			}
			seen[h] = true
		}
		for _, s := range texts(false) {
			ts := strings.TrimSpace(s)
			if strings.HasPrefix(ts, "[") || strings.HasPrefix(ts, "{") {
				return Expect{Skip: "text that is itself a JSON array or object is embedded as structure"}
			}
		}
		return ex
	}
	return Expect{Skip: "unknown format"}
}

// CellEq compares a reloaded cell (null flag + text) with the expected one.
func (ex Expect) CellEq(want Cell, gotNull bool, gotText string) bool {
	if ex.NullIsEmpty {
		w := want.Text()
		if want.K == KNull {
			w = ""
		}
		if gotNull {
			gotText = ""
		}
		return w == gotText
	}
	if want.K == KNull {
		return gotNull
	}
	return !gotNull && want.Text() == gotText
}
