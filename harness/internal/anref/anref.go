// Package anref is the reference model of csvq's analytic functions, written
// from docs/_posts/2006-01-02-analytic-functions.md, aggregate-functions.md,
// user-defined-function.md (aggregate section), select-query.md (ORDER BY
// clause) and the text of property C17. It shares no code with lib/query.
//
// The model works on ONE partition whose rows are already in a concrete order
// (a linear extension of the ORDER BY of the clause) and returns the value of
// the function for every position. Where the manual leaves a point open the
// model takes a Reading; the check accepts a column when some reading explains
// it for the whole column.
package anref

import (
	"math"
	"sort"
	"strconv"
	"strings"

	"verif/harness/internal/rv"
)

// Column indexes of Row.C.
const (
	ColP = 0
	ColO = 1
	ColV = 2
)

var ColNames = [...]string{"p", "o", "v"}

type Row struct {
	ID int
	C  [3]rv.V
}

type OrdItem struct {
	Col   int
	Desc  bool
	Nulls int // 0 = default (ASC: first, DESC: last), 1 = NULLS FIRST, 2 = NULLS LAST
}

type BoundKind int

const (
	UnbPrec BoundKind = iota
	Prec
	Cur
	Foll
	UnbFoll
)

type Bound struct {
	K BoundKind
	N int
}

func (b Bound) SQL() string {
	switch b.K {
	case UnbPrec:
		return "UNBOUNDED PRECEDING"
	case Prec:
		return strconv.Itoa(b.N) + " PRECEDING"
	case Cur:
		return "CURRENT ROW"
	case Foll:
		return strconv.Itoa(b.N) + " FOLLOWING"
	}
	return "UNBOUNDED FOLLOWING"
}

// Frame is a windowing clause. High == nil is the short form "ROWS low".
type Frame struct {
	Low  Bound
	High *Bound
}

func (f *Frame) SQL() string {
	if f.High == nil {
		return "ROWS " + f.Low.SQL()
	}
	return "ROWS BETWEEN " + f.Low.SQL() + " AND " + f.High.SQL()
}

// Call is one analytic function call over the columns p, o, v of the test table.
type Call struct {
	Fn          string // upper case; "UCAT" is the user defined aggregate declared by the check
	Distinct    bool
	IgnoreNulls bool
	Star        bool // COUNT(*)
	N           int  // NTILE(n), NTH_VALUE(v, n)
	HasOffset   bool // LAG / LEAD
	Offset      int
	HasDefault  bool
	Default     rv.V
	HasSep      bool // LISTAGG / UCAT literal separator
	Sep         string
	SepCol      int // UCAT: 1+column whose value at the CURRENT row is the second argument (0 = none)
	Part        []int
	Order       []OrdItem
	Frame       *Frame
}

func (c *Call) argsSQL() string {
	d := ""
	if c.Distinct {
		d = "DISTINCT "
	}
	switch c.Fn {
	case "ROW_NUMBER", "RANK", "DENSE_RANK", "CUME_DIST", "PERCENT_RANK":
		return ""
	case "NTILE":
		return strconv.Itoa(c.N)
	case "NTH_VALUE":
		return "v, " + strconv.Itoa(c.N)
	case "LAG", "LEAD":
		s := "v"
		if c.HasOffset {
			s += ", " + strconv.Itoa(c.Offset)
			if c.HasDefault {
				lit, _ := c.Default.SQL()
				s += ", " + lit
			}
		}
		return s
	case "LISTAGG", "UCAT":
		s := d + "v"
		if c.HasSep {
			s += ", '" + c.Sep + "'"
		} else if c.SepCol > 0 {
			s += ", COALESCE(" + ColNames[c.SepCol-1] + ", 'n')"
		}
		return s
	case "COUNT":
		if c.Star {
			return d + "*"
		}
	}
	return d + "v"
}

func (c *Call) OverSQL() string {
	parts := []string{}
	if len(c.Part) > 0 {
		cs := make([]string, len(c.Part))
		for i, p := range c.Part {
			cs[i] = ColNames[p]
		}
		parts = append(parts, "PARTITION BY "+strings.Join(cs, ", "))
	}
	if len(c.Order) > 0 {
		cs := make([]string, len(c.Order))
		for i, o := range c.Order {
			s := ColNames[o.Col]
			if o.Desc {
				s += " DESC"
			}
			switch o.Nulls {
			case 1:
				s += " NULLS FIRST"
			case 2:
				s += " NULLS LAST"
			}
			cs[i] = s
		}
		parts = append(parts, "ORDER BY "+strings.Join(cs, ", "))
	}
	if c.Frame != nil {
		parts = append(parts, c.Frame.SQL())
	}
	return strings.Join(parts, " ")
}

// SQL is the csvq program text of the call.
func (c *Call) SQL() string {
	s := c.Fn + "(" + c.argsSQL() + ")"
	if c.IgnoreNulls {
		s += " IGNORE NULLS"
	}
	return s + " OVER (" + c.OverSQL() + ")"
}

// FnLabel names the function form without its OVER clause (used in signatures).
func (c *Call) FnLabel() string {
	s := c.Fn
	if c.Star {
		s += "(*)"
	}
	if c.Distinct {
		s += " DISTINCT"
	}
	if c.IgnoreNulls {
		s += " IGNORE NULLS"
	}
	return s
}

// ClauseClass: which part of the clause grammar the call uses.
func (c *Call) ClauseClass() string {
	switch {
	case c.Frame != nil:
		return "explicit-frame"
	case len(c.Order) > 0:
		return "order-no-frame"
	}
	return "no-order"
}

// Windowed tells whether the function's value depends on a window frame.
func (c *Call) Windowed() bool {
	switch c.Fn {
	case "FIRST_VALUE", "LAST_VALUE", "NTH_VALUE", "COUNT", "MIN", "MAX", "SUM", "AVG", "STDEV", "STDEVP", "VAR", "VARP", "MEDIAN", "UCAT":
		return true
	}
	return false
}

// ---- ordering -----------------------------------------------------------------------------------

func nullsFirst(o OrdItem) bool {
	switch o.Nulls {
	case 1:
		return true
	case 2:
		return false
	}
	return !o.Desc // manual: ASC -> FIRST is the default, otherwise LAST
}

// cmpKey orders two rows by the order items: -1, 0 (tie), +1.
func cmpKey(a, b *Row, order []OrdItem) int {
	for _, o := range order {
		x, y := a.C[o.Col], b.C[o.Col]
		xn, yn := x.K == rv.Null, y.K == rv.Null
		switch {
		case xn && yn:
			continue
		case xn:
			if nullsFirst(o) {
				return -1
			}
			return 1
		case yn:
			if nullsFirst(o) {
				return 1
			}
			return -1
		}
		r := 0
		switch rv.Compare(x, y) {
		case rv.LT:
			r = -1
		case rv.GT:
			r = 1
		}
		if o.Desc {
			r = -r
		}
		if r != 0 {
			return r
		}
	}
	return 0
}

// SamePartition: rows with the same PARTITION BY values (NULLs together, like GROUP BY buckets).
func SamePartition(a, b *Row, part []int) bool {
	for _, p := range part {
		if !rv.Equivalent(a.C[p], b.C[p]) {
			return false
		}
	}
	return true
}

// Partitions splits rows into partitions, keeping the given row order inside each.
func Partitions(rows []Row, part []int) [][]Row {
	var out [][]Row
	for _, r := range rows {
		placed := false
		for i := range out {
			if SamePartition(&out[i][0], &r, part) {
				out[i] = append(out[i], r)
				placed = true
				break
			}
		}
		if !placed {
			out = append(out, []Row{r})
		}
	}
	return out
}

// Orderings calls fn with every order of the partition's rows that is consistent with the ORDER BY
// items (every permutation when there are none), the stable one first; it stops when fn returns true
// and reports whether that happened. cap bounds the number of orderings tried (0 = no bound); the
// second result tells whether the bound cut the enumeration.
func Orderings(part []Row, order []OrdItem, limit int, fn func([]Row) bool) (found bool, cut bool) {
	rows := append([]Row(nil), part...)
	var groups [][2]int
	if len(order) == 0 {
		groups = [][2]int{{0, len(rows)}}
	} else {
		sort.SliceStable(rows, func(i, j int) bool { return cmpKey(&rows[i], &rows[j], order) < 0 })
		s := 0
		for i := 1; i <= len(rows); i++ {
			if i == len(rows) || cmpKey(&rows[s], &rows[i], order) != 0 {
				groups = append(groups, [2]int{s, i})
				s = i
			}
		}
	}
	tried := 0
	var rec func(g int) bool
	rec = func(g int) bool {
		if g == len(groups) {
			if limit > 0 && tried >= limit {
				cut = true
				return true
			}
			tried++
			if fn(rows) {
				found = true
				return true
			}
			return false
		}
		lo, hi := groups[g][0], groups[g][1]
		var perm func(k int) bool
		perm = func(k int) bool {
			if k >= hi-1 {
				return rec(g + 1)
			}
			for i := k; i < hi; i++ {
				rows[k], rows[i] = rows[i], rows[k]
				stop := perm(k + 1)
				rows[k], rows[i] = rows[i], rows[k]
				if stop {
					return true
				}
			}
			return false
		}
		if hi-lo <= 1 {
			return rec(g + 1)
		}
		return perm(lo)
	}
	rec(0)
	return found, cut
}

// ---- readings of points the manual leaves open ----------------------------------------------------

type Reading struct {
	// frame of a windowed function with ORDER BY and no windowing clause:
	// 0 = ROWS UNBOUNDED PRECEDING..CURRENT ROW, 1 = up to the last peer of the current row (SQL's RANGE default),
	// 2 = the whole partition
	DefaultFrame int
	// ranking functions without ORDER BY: false = all rows are peers, true = rows ranked in their (arbitrary) order
	NoOrderSequential bool
	// PERCENT_RANK in a partition of one row: 0 or 1
	PercentRankSingle float64
	// LAG/LEAD IGNORE NULLS: false = go to the offset row, then skip nulls further away;
	// true = count the offset over non-null rows only
	LagCountsNonNull bool
}

// Readings lists the readings that can matter for the call.
func Readings(c *Call) []Reading {
	switch {
	case c.Windowed() && c.Frame == nil && len(c.Order) > 0:
		rs := []Reading{{DefaultFrame: 0}, {DefaultFrame: 1}}
		if c.Fn == "LAST_VALUE" {
			rs = append(rs, Reading{DefaultFrame: 2})
		}
		return rs
	case c.Fn == "PERCENT_RANK":
		if len(c.Order) == 0 {
			return []Reading{{PercentRankSingle: 0}, {PercentRankSingle: 1}, {PercentRankSingle: 0, NoOrderSequential: true}, {PercentRankSingle: 1, NoOrderSequential: true}}
		}
		return []Reading{{PercentRankSingle: 0}, {PercentRankSingle: 1}}
	case (c.Fn == "RANK" || c.Fn == "DENSE_RANK" || c.Fn == "CUME_DIST") && len(c.Order) == 0:
		return []Reading{{}, {NoOrderSequential: true}}
	case (c.Fn == "LAG" || c.Fn == "LEAD") && c.IgnoreNulls:
		return []Reading{{}, {LagCountsNonNull: true}}
	}
	return []Reading{{}}
}

// ---- evaluation -----------------------------------------------------------------------------------

// Result of the model for one partition: a value per position, or Err when the call must be rejected.
type Result struct {
	Vals []rv.V
	Err  bool
}

func frameOf(c *Call, rd Reading, i, n int, peerEnd []int) (lo, hi int) {
	if len(c.Order) == 0 {
		return 0, n - 1
	}
	if c.Frame == nil {
		switch rd.DefaultFrame {
		case 1:
			return 0, peerEnd[i] - 1
		case 2:
			return 0, n - 1
		}
		return 0, i
	}
	pos := func(b Bound) int {
		switch b.K {
		case UnbPrec:
			return 0
		case Prec:
			return i - b.N
		case Cur:
			return i
		case Foll:
			return i + b.N
		}
		return n - 1
	}
	lo = pos(c.Frame.Low)
	if c.Frame.High == nil {
		hi = i
	} else {
		hi = pos(*c.Frame.High)
	}
	if lo < 0 {
		lo = 0
	}
	if hi > n-1 {
		hi = n - 1
	}
	return lo, hi
}

func distinct(vs []rv.V) []rv.V {
	var out []rv.V
	for _, v := range vs {
		dup := false
		for _, w := range out {
			if rv.Equivalent(v, w) {
				dup = true
				break
			}
		}
		if !dup {
			out = append(out, v)
		}
	}
	return out
}

func floats(vs []rv.V) []float64 {
	var fs []float64
	for _, v := range vs {
		if f, ok := v.Float(); ok {
			fs = append(fs, f)
		}
	}
	return fs
}

func variance(fs []float64, population bool) float64 {
	m := 0.0
	for _, f := range fs {
		m += f
	}
	m /= float64(len(fs))
	s := 0.0
	for _, f := range fs {
		s += (f - m) * (f - m)
	}
	if population {
		return s / float64(len(fs))
	}
	return s / float64(len(fs)-1)
}

// Aggregate applies a built-in aggregate (manual: aggregate-functions) or the check's UCAT to a list of values.
func Aggregate(c *Call, vs []rv.V, sep string) rv.V {
	if c.Distinct {
		vs = distinct(vs)
	}
	switch c.Fn {
	case "COUNT":
		if c.Star {
			return rv.I(int64(len(vs)))
		}
		n := int64(0)
		for _, v := range vs {
			if v.K != rv.Null {
				n++
			}
		}
		return rv.I(n)
	case "MIN", "MAX":
		res := rv.N()
		op := "<"
		if c.Fn == "MAX" {
			op = ">"
		}
		for _, v := range vs {
			if v.K == rv.Null {
				continue
			}
			if res.K == rv.Null || rv.Op(v, res, op) == rv.T {
				res = v
			}
		}
		return res
	case "UCAT":
		var sb strings.Builder
		for _, v := range vs {
			if v.K == rv.Null {
				sb.WriteString("N")
			} else {
				sb.WriteString(Text(v))
			}
			sb.WriteString(sep)
		}
		return rv.S(sb.String())
	case "LISTAGG":
		var ss []string
		for _, v := range vs {
			if v.K != rv.Null {
				ss = append(ss, Text(v))
			}
		}
		if len(ss) == 0 {
			return rv.N()
		}
		return rv.S(strings.Join(ss, sep))
	}
	fs := floats(vs)
	if len(fs) == 0 {
		return rv.N()
	}
	switch c.Fn {
	case "SUM":
		s := 0.0
		for _, f := range fs {
			s += f
		}
		return rv.Fl(s)
	case "AVG":
		s := 0.0
		for _, f := range fs {
			s += f
		}
		return rv.Fl(s / float64(len(fs)))
	case "VARP":
		return rv.Fl(variance(fs, true))
	case "STDEVP":
		return rv.Fl(math.Sqrt(variance(fs, true)))
	case "VAR":
		if len(fs) < 2 {
			return rv.N() // a sample variance of one value does not exist
		}
		return rv.Fl(variance(fs, false))
	case "STDEV":
		if len(fs) < 2 {
			return rv.N()
		}
		return rv.Fl(math.Sqrt(variance(fs, false)))
	case "MEDIAN":
		sort.Float64s(fs)
		if len(fs)%2 == 1 {
			return rv.Fl(fs[len(fs)/2])
		}
		return rv.Fl((fs[len(fs)/2-1] + fs[len(fs)/2]) / 2)
	}
	panic("anref: unknown aggregate " + c.Fn)
}

// Text is the string form of a value (manual: value page, conversion to string).
func Text(v rv.V) string {
	switch v.K {
	case rv.Str:
		return v.S
	case rv.Int:
		return strconv.FormatInt(v.I, 10)
	case rv.Float:
		return strconv.FormatFloat(v.F, 'f', -1, 64)
	}
	return v.Key()
}

// Text2 is Text with NULL spelled out (messages only).
func Text2(v rv.V) string {
	if v.K == rv.Null {
		return "NULL"
	}
	return Text(v)
}

// Eval evaluates the call for every position of one partition given in a concrete order.
func Eval(c *Call, part []Row, rd Reading) Result {
	n := len(part)
	out := make([]rv.V, n)
	// peer groups of the ORDER BY
	peerStart := make([]int, n)
	peerEnd := make([]int, n)
	groupNo := make([]int, n)
	{
		s, g := 0, 0
		for i := 1; i <= n; i++ {
			var brk bool
			switch {
			case i == n:
				brk = true
			case len(c.Order) == 0:
				brk = rd.NoOrderSequential
			default:
				brk = cmpKey(&part[s], &part[i], c.Order) != 0
			}
			if brk {
				for k := s; k < i; k++ {
					peerStart[k], peerEnd[k], groupNo[k] = s, i, g
				}
				s = i
				g++
			}
		}
	}
	val := func(i int) rv.V { return part[i].C[ColV] }
	frameVals := func(i int) []rv.V {
		lo, hi := frameOf(c, rd, i, n, peerEnd)
		var vs []rv.V
		for k := lo; k <= hi; k++ {
			vs = append(vs, val(k))
		}
		return vs
	}
	switch c.Fn {
	case "ROW_NUMBER":
		for i := range out {
			out[i] = rv.I(int64(i + 1))
		}
	case "RANK":
		for i := range out {
			out[i] = rv.I(int64(peerStart[i] + 1))
		}
	case "DENSE_RANK":
		for i := range out {
			out[i] = rv.I(int64(groupNo[i] + 1))
		}
	case "CUME_DIST":
		for i := range out {
			out[i] = rv.Fl(float64(peerEnd[i]) / float64(n))
		}
	case "PERCENT_RANK":
		for i := range out {
			if n == 1 {
				out[i] = rv.Fl(rd.PercentRankSingle)
			} else {
				out[i] = rv.Fl(float64(peerStart[i]) / float64(n-1))
			}
		}
	case "NTILE":
		if c.N < 1 {
			return Result{Err: true}
		}
		q, r := n/c.N, n%c.N
		i := 0
		for g := 1; i < n; g++ {
			size := q
			if g <= r {
				size++
			}
			if size < 1 {
				size = 1
			}
			for k := 0; k < size && i < n; k++ {
				out[i] = rv.I(int64(g))
				i++
			}
		}
	case "FIRST_VALUE", "LAST_VALUE", "NTH_VALUE":
		if c.Fn == "NTH_VALUE" && c.N < 1 {
			return Result{Err: true}
		}
		for i := range out {
			vs := frameVals(i)
			if c.IgnoreNulls {
				var nn []rv.V
				for _, v := range vs {
					if v.K != rv.Null {
						nn = append(nn, v)
					}
				}
				vs = nn
			}
			out[i] = rv.N()
			switch {
			case c.Fn == "FIRST_VALUE" && len(vs) > 0:
				out[i] = vs[0]
			case c.Fn == "LAST_VALUE" && len(vs) > 0:
				out[i] = vs[len(vs)-1]
			case c.Fn == "NTH_VALUE" && len(vs) >= c.N:
				out[i] = vs[c.N-1]
			}
		}
	case "LAG", "LEAD":
		off := 1
		if c.HasOffset {
			off = c.Offset
		}
		dir := -1
		if c.Fn == "LEAD" {
			dir = 1
		}
		def := rv.N()
		if c.HasDefault {
			def = c.Default
		}
		for i := range out {
			out[i] = def
			if !c.IgnoreNulls {
				if t := i + dir*off; t >= 0 && t < n {
					out[i] = val(t)
				}
				continue
			}
			if rd.LagCountsNonNull {
				// the off-th non-null row before (after) the current one; offset 0 is the current row itself
				if off == 0 {
					if val(i).K != rv.Null {
						out[i] = val(i)
					}
					continue
				}
				cnt := 0
				for t := i + dir; t >= 0 && t < n; t += dir {
					if val(t).K != rv.Null {
						cnt++
						if cnt == off {
							out[i] = val(t)
							break
						}
					}
				}
				continue
			}
			if t := i + dir*off; t >= 0 && t < n {
				for ; t >= 0 && t < n; t += dir {
					if val(t).K != rv.Null {
						out[i] = val(t)
						break
					}
				}
			}
		}
	case "LISTAGG", "JSON_AGG":
		vs := make([]rv.V, n)
		for i := range vs {
			vs[i] = val(i)
		}
		var r rv.V
		if c.Fn == "LISTAGG" {
			r = Aggregate(c, vs, c.Sep)
		} else {
			if c.Distinct {
				vs = distinct(vs)
			}
			r = rv.S(JSONArray(vs))
		}
		for i := range out {
			out[i] = r
		}
	default: // aggregates and the user defined aggregate over the row's frame
		for i := range out {
			sep := "|"
			if c.HasSep {
				sep = c.Sep
			} else if c.SepCol > 0 {
				sep = "n"
				if x := part[i].C[c.SepCol-1]; x.K != rv.Null {
					sep = Text(x)
				}
			}
			out[i] = Aggregate(c, frameVals(i), sep)
		}
	}
	return Result{Vals: out}
}

// JSONArray is the canonical text the check compares JSON_AGG results in (both sides are re-encoded to it).
func JSONArray(vs []rv.V) string {
	parts := make([]string, len(vs))
	for i, v := range vs {
		switch v.K {
		case rv.Null:
			parts[i] = "null"
		case rv.Str:
			parts[i] = strconv.Quote(v.S)
		case rv.Int:
			parts[i] = strconv.FormatInt(v.I, 10)
		case rv.Float:
			parts[i] = strconv.FormatFloat(v.F, 'g', -1, 64)
		default:
			parts[i] = strconv.Quote(v.Key())
		}
	}
	return "[" + strings.Join(parts, ",") + "]"
}

// Same compares a csvq value with a model value: exact, floats to a relative 1e-9.
func Same(got, want rv.V) bool {
	if got.K == rv.Float && want.K == rv.Float {
		if got.F == want.F {
			return true
		}
		d := math.Abs(got.F - want.F)
		return d <= 1e-9*math.Max(math.Abs(got.F), math.Abs(want.F))
	}
	return rv.SameValue(got, want)
}
