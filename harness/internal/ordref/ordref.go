// Package ordref is the reference model of ORDER BY / LIMIT / OFFSET written
// from docs/_posts/2006-01-02-select-query.md ("Order By Clause", "Limit
// Clause") and the C07 property text. Values are compared with the documented
// comparison ladder of package rv. It shares no code with lib/query.
package ordref

import (
	"math"
	"math/big"

	"verif/harness/internal/rv"
)

// Nulls position of an order item.
const (
	NullsDefault = 0 // FIRST under ASC, LAST under DESC (manual: "If order_direction is specified as ASC then FIRST is the default, otherwise LAST")
	NullsFirst   = 1
	NullsLast    = 2
)

// Direction spelling of an order item. DirNone means no keyword (ASC is the default).
const (
	DirNone = 0
	DirAsc  = 1
	DirDesc = 2
)

type Key struct {
	Col   int `json:"col"`
	Dir   int `json:"dir"`
	Nulls int `json:"nulls"`
}

func (k Key) Desc() bool { return k.Dir == DirDesc }

func (k Key) NullsFirst() bool {
	switch k.Nulls {
	case NullsFirst:
		return true
	case NullsLast:
		return false
	}
	return !k.Desc()
}

type Row struct {
	ID int
	V  []rv.V
}

// Relation of two values under one order item.
const (
	Before = -1
	Tie    = 0
	After  = 1
)

// CmpVal tells where a sorts relative to b under item k. ok=false: the two values are not
// mutually comparable (outside the property's quantifier), nothing is required of their order.
// byNull tells that the null position decided.
func CmpVal(a, b rv.V, k Key) (rel int, byNull bool, ok bool) {
	an, bn := a.K == rv.Null, b.K == rv.Null
	switch {
	case an && bn:
		return Tie, true, true
	case an:
		if k.NullsFirst() {
			return Before, true, true
		}
		return After, true, true
	case bn:
		if k.NullsFirst() {
			return After, true, true
		}
		return Before, true, true
	}
	switch rv.Compare(a, b) {
	case rv.EQ:
		return Tie, false, true
	case rv.LT:
		if k.Desc() {
			return After, false, true
		}
		return Before, false, true
	case rv.GT:
		if k.Desc() {
			return Before, false, true
		}
		return After, false, true
	}
	return Tie, false, false
}

// CmpRows compares rows under the key list, left to right; decider is the index of the item that
// decided (len(keys) when all items tie).
func CmpRows(a, b Row, keys []Key) (rel int, decider int, ok bool) {
	for i, k := range keys {
		r, _, ok := CmpVal(a.V[k.Col], b.V[k.Col], k)
		if !ok {
			return Tie, i, false
		}
		if r != Tie {
			return r, i, true
		}
	}
	return Tie, len(keys), true
}

// Sorted returns one correctly sorted arrangement (stable insertion sort). The sequence of
// tie classes in it is the same in every correctly sorted arrangement.
func Sorted(rows []Row, keys []Key) []Row {
	out := make([]Row, len(rows))
	copy(out, rows)
	for i := 1; i < len(out); i++ {
		for j := i; j > 0; j-- {
			r, _, _ := CmpRows(out[j], out[j-1], keys)
			if r != Before {
				break
			}
			out[j], out[j-1] = out[j-1], out[j]
		}
	}
	return out
}

// Limit kinds.
const (
	LimNone    = 0
	LimRows    = 1
	LimPercent = 2
)

type Limit struct {
	Kind   int    `json:"kind"`
	N      int64  `json:"n"`       // LimRows
	Pct    string `json:"pct"`     // LimPercent: the decimal text written in the query
	Ties   bool   `json:"ties"`    // WITH TIES
	HasOff bool   `json:"has_off"` // OFFSET present
	Off    int64  `json:"off"`
	Fetch  bool   `json:"fetch"` // spelled OFFSET .. FETCH FIRST .. instead of LIMIT .. OFFSET ..
}

// Window is what the limit clause must keep of a sorted arrangement of n rows:
// positions [Start, PlainEnd) by count, extended to End by WITH TIES.
type Window struct {
	Start, PlainEnd, End int
	TiesConsulted        bool // WITH TIES had a following row to look at
	Ambiguous            bool // the percentage count depends on floating point rounding of the literal; not compared
}

// Cut computes the window. sorted is a correctly sorted arrangement; ordered tells whether the
// query has an ORDER BY clause (WITH TIES is ignored without one).
//
// Manual: OFFSET excludes the first set of records; LIMIT n is the maximum number of records;
// PERCENT is taken of the result set *including* the records excluded by OFFSET; WITH TIES includes
// all records that have the same sort keys as the last record of the limited records.
// Manual silent, csvq followed: negative numbers count as 0; a fractional row count is rounded up.
func Cut(sorted []Row, keys []Key, ordered bool, lim Limit) Window {
	n := len(sorted)
	w := Window{Start: 0, PlainEnd: n, End: n}
	if lim.HasOff {
		switch {
		case lim.Off <= 0:
			w.Start = 0
		case lim.Off >= int64(n):
			w.Start = n
		default:
			w.Start = int(lim.Off)
		}
	}
	var count *big.Int
	switch lim.Kind {
	case LimNone:
		return Window{Start: w.Start, PlainEnd: n, End: n}
	case LimRows:
		if lim.N < 0 {
			count = big.NewInt(0)
		} else {
			count = big.NewInt(lim.N)
		}
	case LimPercent:
		exact, ok := new(big.Rat).SetString(lim.Pct)
		if !ok {
			panic("ordref: bad percentage " + lim.Pct)
		}
		count = pctCount(n, exact)
		// the same with the binary float the literal denotes: when the two disagree the "right" count is a
		// matter of rounding the manual does not settle
		f, _ := exact.Float64()
		if fr := new(big.Rat).SetFloat64(f); fr != nil {
			if pctCount(n, fr).Cmp(count) != 0 {
				w.Ambiguous = true
			}
		}
	}
	rest := int64(n - w.Start)
	if count.IsInt64() && count.Int64() < rest {
		w.PlainEnd = w.Start + int(count.Int64())
	} else {
		w.PlainEnd = n
	}
	w.End = w.PlainEnd
	if lim.Ties && ordered && w.PlainEnd > w.Start && w.PlainEnd < n {
		w.TiesConsulted = true
		last := sorted[w.PlainEnd-1]
		for w.End < n {
			r, _, ok := CmpRows(last, sorted[w.End], keys)
			if !ok || r != Tie {
				break
			}
			w.End++
		}
	}
	return w
}

// pctCount = ceil(n * pct / 100), 0 for negative percentages.
func pctCount(n int, pct *big.Rat) *big.Int {
	if pct.Sign() <= 0 {
		return big.NewInt(0)
	}
	x := new(big.Rat).Mul(pct, big.NewRat(int64(n), 100))
	q := new(big.Int)
	m := new(big.Int)
	q.QuoRem(x.Num(), x.Denom(), m)
	if m.Sign() != 0 {
		q.Add(q, big.NewInt(1))
	}
	return q
}

var _ = math.Ceil
