// Package procx runs the real csvq CLI, built through the overlay as /verif/.bin/csvq-verif, as a child
// process steered by the vfs shim's process mode (trace / crash / signal / fault at a numbered point).
package procx

import (
	"bytes"
	"fmt"
	"os"
	"os/exec"
	"path/filepath"
	"strings"
	"syscall"
	"time"
)

func Binary() string {
	if p := os.Getenv("VERIF_CSVQ_BIN"); p != "" {
		return p
	}
	exe, _ := os.Executable()
	return filepath.Join(filepath.Dir(exe), "csvq-verif")
}

type Run struct {
	Dir   string
	Args  []string
	Env   []string // extra VERIF_* settings
	Stdin string
	Timeout time.Duration
}

type Outcome struct {
	Exit     int  // exit code, -1 if killed by a signal
	Signal   syscall.Signal
	Killed   bool // by our timeout
	Stdout   string
	Stderr   string
	Trace    []TracePoint
	CPU      time.Duration // user + system time of the process
}

type TracePoint struct {
	K      int
	Name   string
	Path   string
	Path2  string
	Result string
}

func (t TracePoint) String() string {
	s := fmt.Sprintf("%s(%s", t.Name, filepath.Base(t.Path))
	if t.Path == "" {
		s = t.Name + "("
	}
	if t.Path2 != "" {
		s += "," + filepath.Base(t.Path2)
	}
	return s + ")"
}

var home string

func Home() string {
	if home == "" {
		home = "/dev/shm/verif-home-empty"
		os.MkdirAll(home, 0755)
	}
	return home
}

func Exec(r Run) Outcome {
	cmd := exec.Command(Binary(), r.Args...)
	cmd.Dir = r.Dir
	tracef := ""
	env := []string{"HOME=" + Home(), "XDG_CONFIG_HOME=" + Home(), "PATH=/usr/bin:/bin", "TZ=UTC", "GOMAXPROCS=2"}
	for _, e := range r.Env {
		if strings.HasPrefix(e, "VERIF_TRACE=") {
			tracef = strings.TrimPrefix(e, "VERIF_TRACE=")
			os.Remove(tracef)
		}
		env = append(env, e)
	}
	cmd.Env = env
	var so, se bytes.Buffer
	cmd.Stdout, cmd.Stderr = &so, &se
	if r.Stdin != "" {
		cmd.Stdin = strings.NewReader(r.Stdin)
	}
	to := r.Timeout
	if to == 0 {
		to = 60 * time.Second
	}
	var out Outcome
	if err := cmd.Start(); err != nil {
		out.Exit = -2
		out.Stderr = err.Error()
		return out
	}
	done := make(chan error, 1)
	go func() { done <- cmd.Wait() }()
	var err error
	select {
	case err = <-done:
	case <-time.After(to):
		// Elapsed time alone is no verdict: on a loaded machine a process can be starved for a long time. It is
		// declared stuck only if it is BLOCKED - no thread runnable and no CPU time used over a further observation
		// period - or if it has used more CPU time than the whole allowance (runaway). A process that is runnable but
		// gets no CPU is given up to ten times the allowance.
		finished := false
		for round := 0; round < 9 && !finished; round++ {
			if cpuOf(cmd.Process.Pid) > to || blocked(cmd.Process.Pid, done, &err, &finished) {
				break
			}
			if finished {
				break
			}
			select {
			case err = <-done:
				finished = true
			case <-time.After(to):
			}
		}
		if !finished {
			cmd.Process.Kill()
			err = <-done
			out.Killed = true
		}
	}
	out.Stdout, out.Stderr = so.String(), se.String()
	if cmd.ProcessState != nil {
		out.CPU = cmd.ProcessState.UserTime() + cmd.ProcessState.SystemTime()
	}
	if err != nil {
		if ee, ok := err.(*exec.ExitError); ok {
			ws := ee.Sys().(syscall.WaitStatus)
			if ws.Signaled() {
				out.Exit = -1
				out.Signal = ws.Signal()
			} else {
				out.Exit = ws.ExitStatus()
			}
		} else {
			out.Exit = -2
		}
	}
	if tracef != "" {
		out.Trace = ReadTrace(tracef)
	}
	return out
}

func ReadTrace(path string) []TracePoint {
	b, err := os.ReadFile(path)
	if err != nil {
		return nil
	}
	var tps []TracePoint
	for _, l := range strings.Split(strings.TrimSpace(string(b)), "\n") {
		// "<k> <name> <path> <path2> -> <result>"
		i := strings.Index(l, " -> ")
		if i < 0 {
			continue
		}
		f := strings.SplitN(l[:i], " ", 4)
		for len(f) < 4 {
			f = append(f, "")
		}
		var k int
		fmt.Sscanf(f[0], "%d", &k)
		tps = append(tps, TracePoint{K: k, Name: f[1], Path: f[2], Path2: f[3], Result: l[i+4:]})
	}
	return tps
}

// cpuOf: user + system time the process has used so far (0 if unknown)
func cpuOf(pid int) time.Duration {
	b, err := os.ReadFile(fmt.Sprintf("/proc/%d/stat", pid))
	if err != nil {
		return 0
	}
	f := strings.Fields(string(b[bytes.LastIndexByte(b, ')')+1:]))
	if len(f) < 13 {
		return 0
	}
	var ut, st int64
	fmt.Sscan(f[11], &ut)
	fmt.Sscan(f[12], &st)
	return time.Duration(ut+st) * 10 * time.Millisecond // USER_HZ = 100
}

// blocked watches the process for two seconds: true if in every sample no thread was runnable and the CPU time did not
// advance. If the process ends meanwhile, *finished is set.
func blocked(pid int, done chan error, err *error, finished *bool) bool {
	cpu0 := cpuOf(pid)
	for i := 0; i < 20; i++ {
		select {
		case *err = <-done:
			*finished = true
			return false
		case <-time.After(100 * time.Millisecond):
		}
		tasks, _ := filepath.Glob(fmt.Sprintf("/proc/%d/task/*/stat", pid))
		for _, t := range tasks {
			b, e := os.ReadFile(t)
			if e != nil {
				continue
			}
			f := strings.Fields(string(b[bytes.LastIndexByte(b, ')')+1:]))
			if len(f) > 0 && (f[0] == "R" || f[0] == "D") {
				return false
			}
		}
		if cpuOf(pid) != cpu0 {
			return false
		}
	}
	return true
}
