//go:build verifx

// Package fsx is the file-system-step explorer (engine E2). Simulated csvq
// processes are goroutines running real lib/file / lib/query code on one
// shared tmpfs directory; the vfs shim turns every file-system step, retry
// wait and timeout into a point at which exactly one process is allowed to
// proceed. The explorer enumerates ALL interleavings by depth-first search
// over scheduling choices with a visited set over global states.
package fsx

import (
	"context"
	"crypto/sha256"
	"fmt"
	"os"
	"path/filepath"
	"regexp"
	"runtime"
	"sort"
	"strings"
	"sync"
	"time"

	"github.com/mithrandie/csvq/lib/verifshim/vfs"
)

type Proc struct {
	ID   int
	Name string
	Dir  string

	gid     int64
	status  int // 0 not started, 1 running, 2 parked, 3 done
	pending *vfs.Op
	resume  chan vfs.Decision
	log     []string
	tctx    *vctx
	ex      *execution
	rlockN  int
	panicV  any
	hashed  int      // number of log entries folded into logHash
	logHash [32]byte // running hash of the log
}

// logKey folds new log entries into the running hash (recomputed from scratch after a retry collapse).
func (p *Proc) logKey() [32]byte {
	if p.hashed > len(p.log) {
		p.hashed = 0
		p.logHash = [32]byte{}
	}
	for ; p.hashed < len(p.log); p.hashed++ {
		h := sha256.New()
		h.Write(p.logHash[:])
		h.Write([]byte(p.log[p.hashed]))
		copy(p.logHash[:], h.Sum(nil))
	}
	return p.logHash
}

const (
	stNew = iota
	stRunning
	stParked
	stDone
)

// Obs appends a harness-level observation to the process's log (part of the state key and oracle input).
func (p *Proc) Obs(s string) { p.log = append(p.log, "obs:"+s) }

// Yield is a pure scheduling point inside a harness body.
func (p *Proc) Yield(name string) { vfs.Point(name) }

func (p *Proc) Log() []string { return p.log }
func (p *Proc) Done() bool    { return p.status == stDone }

// HasObs reports whether the log contains the observation.
func (p *Proc) HasObs(s string) bool {
	for _, l := range p.log {
		if l == "obs:"+s {
			return true
		}
	}
	return false
}

// ObsWithPrefix returns the observations starting with prefix (prefix removed).
func (p *Proc) ObsWithPrefix(prefix string) []string {
	var out []string
	for _, l := range p.log {
		if strings.HasPrefix(l, "obs:"+prefix) {
			out = append(out, strings.TrimPrefix(l, "obs:"+prefix))
		}
	}
	return out
}

type World struct {
	Dir   string
	Procs []*Proc
	Files map[string]string // canonical name -> content
	Final bool
}

type Violation struct {
	Sig, Msg string
}

type Scenario struct {
	Name  string
	Setup func(dir string)
	// Bodies is called once per execution (after Setup, outside scheduling) and returns one body per process;
	// each body runs real csvq code and returns when its process ends.
	Bodies func(dir string) []func(p *Proc)
	// Check is evaluated in every newly reached global state (Final set in terminal states).
	Check func(w *World) []Violation
	// TimeoutAnywhere lets a wait-timeout fire at any point, not only while the process sits in a retry wait.
	TimeoutAnywhere bool
	MaxExecutions   int
}

type Choice struct {
	Kind byte // 'r' run process, 'f' fire the wait-timeout of process
	Pid  int
}

func (c Choice) String() string { return fmt.Sprintf("%c%d", c.Kind, c.Pid) }

type Stats struct {
	Executions  int
	States      int
	Transitions int
	MaxDepth    int
	Terminal    int
	Capped      bool
	Violations  map[string]FoundViolation
	Nondeterminism int
}

type FoundViolation struct {
	Violation
	Schedule []string
	Trace    []string
}

type execution struct {
	sc     *Scenario
	procs  []*Proc
	events chan *Proc
	byGid  map[int64]*Proc
	mu     sync.Mutex
	alias  map[string]string
	cur    int
	trace  []string
	// running is the one process allowed to run right now; every shim call made meanwhile belongs to it
	// (csvq does its file-system steps on the goroutine that executes the statement).
	running *Proc
}

var (
	ctrlMu  sync.Mutex
	current *execution
)

type controller struct{}

func (controller) Enter(op *vfs.Op) vfs.Decision {
	ctrlMu.Lock()
	ex := current
	ctrlMu.Unlock()
	if ex == nil {
		if seqMode {
			return seqEnter(op)
		}
		return vfs.Decision{}
	}
	p := ex.running
	if p == nil {
		return vfs.Decision{}
	}
	p.pending = op
	p.status = stParked
	ex.events <- p
	d := <-p.resume
	p.status = stRunning
	return d
}

var reRlock = regexp.MustCompile(`\.([0-9a-zA-Z]{12})\.rlock$`)

func (ex *execution) canon(path string) string {
	if path == "" {
		return ""
	}
	b := filepath.Base(path)
	if m := reRlock.FindStringSubmatch(b); m != nil {
		ex.mu.Lock()
		a, ok := ex.alias[m[1]]
		ex.mu.Unlock()
		if !ok {
			a = "NEW" // a random reader-lock name not created yet (existence probe before creation)
		}
		b = strings.Replace(b, m[1], a, 1)
	}
	return b
}

func (controller) Exit(op *vfs.Op, res string) {
	ctrlMu.Lock()
	ex := current
	ctrlMu.Unlock()
	if ex == nil {
		return
	}
	p := ex.running
	if p == nil {
		return
	}
	if op.Name == "create" && res == "ok" {
		if m := reRlock.FindStringSubmatch(filepath.Base(op.Path)); m != nil {
			ex.mu.Lock()
			p.rlockN++
			ex.alias[m[1]] = fmt.Sprintf("P%dr%d", p.ID, p.rlockN)
			ex.mu.Unlock()
		}
	}
	if op.Name == "glob" {
		// canonicalise the random reader-lock names inside the result
		parts := strings.Split(strings.Trim(res, "[]"), ";")
		for i, s := range parts {
			parts[i] = ex.canon(s)
		}
		sort.Strings(parts)
		res = "[" + strings.Join(parts, ";") + "]"
	}
	entry := op.Name + " " + ex.canon(op.Path)
	if op.Path2 != "" {
		entry += " " + ex.canon(op.Path2)
	}
	entry += " -> " + res
	p.log = append(p.log, entry)
	if op.Name == "wait" {
		collapseRetry(p)
	}
}

// collapseRetry drops the last retry iteration from the log when it is identical to the one before it
// (csvq's retry loops carry no iteration state, so the process is in the same local state again).
func collapseRetry(p *Proc) {
	n := len(p.log)
	// find previous "wait" entry
	j := -1
	for i := n - 2; i >= 0; i-- {
		if strings.HasPrefix(p.log[i], "wait ") {
			j = i
			break
		}
	}
	if j < 0 {
		return
	}
	blockLen := n - 1 - j
	if j+1-blockLen < 0 {
		return
	}
	for k := 0; k < blockLen; k++ {
		if p.log[j-blockLen+1+k] != p.log[j+1+k] {
			return
		}
	}
	p.log = p.log[:j+1]
	p.hashed = len(p.log) + 1 // force a recomputation of the running hash
}

func (controller) WithTimeout(parent context.Context, d time.Duration) (context.Context, context.CancelFunc, bool) {
	ctrlMu.Lock()
	ex := current
	ctrlMu.Unlock()
	if ex == nil {
		if seqMode {
			c := &vctx{parent: parent, done: make(chan struct{})}
			seqCtx = c
			return c, func() {
				if seqCtx == c {
					seqCtx = nil
				}
			}, true
		}
		return nil, nil, false
	}
	p := ex.running
	if p == nil {
		return nil, nil, false
	}
	c := &vctx{parent: parent, done: make(chan struct{})}
	p.tctx = c
	return c, func() {
		if p.tctx == c {
			p.tctx = nil
		}
	}, true
}

// vctx is a context whose deadline is fired by the explorer, never by the clock.
type vctx struct {
	parent context.Context
	done   chan struct{}
	mu     sync.Mutex
	err    error
}

func (c *vctx) Deadline() (time.Time, bool) { return time.Unix(1<<40, 0), true }
func (c *vctx) Done() <-chan struct{}       { return c.done }
func (c *vctx) Err() error {
	c.mu.Lock()
	defer c.mu.Unlock()
	if c.err == nil && c.parent.Err() != nil {
		return c.parent.Err()
	}
	return c.err
}
func (c *vctx) Value(k any) any { return c.parent.Value(k) }
func (c *vctx) fire() {
	c.mu.Lock()
	if c.err == nil {
		c.err = context.DeadlineExceeded
		close(c.done)
	}
	c.mu.Unlock()
}
func (c *vctx) fired() bool { c.mu.Lock(); defer c.mu.Unlock(); return c.err != nil }

func init() { vfs.C = controller{} }

// ---------------------------------------------------------------------------------------------

type Explorer struct {
	Sc       *Scenario
	BaseDir  string
	Deadline time.Time
	Stats    Stats
	visited  map[[16]byte]struct{}
	trans    map[[16]byte]struct{}
	stack    [][]Choice
	Shard, N int // shard the first-level subtrees
}

func NewExplorer(sc *Scenario, baseDir string, deadline time.Time) *Explorer {
	return &Explorer{Sc: sc, BaseDir: baseDir, Deadline: deadline, visited: map[[16]byte]struct{}{}, trans: map[[16]byte]struct{}{},
		Stats: Stats{Violations: map[string]FoundViolation{}}}
}

func hash16(s string) [16]byte {
	h := sha256.Sum256([]byte(s))
	var k [16]byte
	copy(k[:], h[:16])
	return k
}

func (e *Explorer) Explore() {
	e.stack = [][]Choice{nil}
	for len(e.stack) > 0 {
		if time.Now().After(e.Deadline) || (e.Sc.MaxExecutions > 0 && e.Stats.Executions >= e.Sc.MaxExecutions) {
			e.Stats.Capped = true
			return
		}
		prefix := e.stack[len(e.stack)-1]
		e.stack = e.stack[:len(e.stack)-1]
		e.runOne(prefix, true)
		if e.Stats.Nondeterminism > 0 {
			// a replayed prefix met other enabled steps than when it was recorded: the harness does not own some
			// source of nondeterminism of this scenario. The abandoned execution's processes run on unscheduled in the
			// scenario's directory, so nothing explored after this point could be trusted: the scenario ends here
			// (reported as not covered by the caller).
			time.Sleep(300 * time.Millisecond)
			return
		}
	}
}

// Replay runs exactly one schedule and returns the violations seen in its states.
func (e *Explorer) Replay(schedule []Choice) {
	e.runOne(schedule, false)
}

func (e *Explorer) runOne(prefix []Choice, expand bool) {
	e.Stats.Executions++
	dir := filepath.Join(e.BaseDir, "x")
	os.RemoveAll(dir)
	os.MkdirAll(dir, 0755)
	e.Sc.Setup(dir)
	vfs.ForgetAll()
	ex := &execution{sc: e.Sc, events: make(chan *Proc, 4), byGid: map[int64]*Proc{}, alias: map[string]string{}}
	ctrlMu.Lock()
	current = ex
	ctrlMu.Unlock()
	for i, body := range e.Sc.Bodies(dir) {
		p := &Proc{ID: i + 1, Name: fmt.Sprintf("P%d", i+1), Dir: dir, resume: make(chan vfs.Decision), ex: ex}
		ex.procs = append(ex.procs, p)
		started := make(chan struct{})
		ex.running = p
		go func(p *Proc, body func(*Proc)) {
			p.status = stRunning
			close(started)
			defer func() {
				if r := recover(); r != nil {
					p.panicV = r
					buf := make([]byte, 4096)
					buf = buf[:runtime.Stack(buf, false)]
					p.log = append(p.log, fmt.Sprintf("PANIC %v", r))
					fmt.Fprintf(os.Stderr, "fsx: process body panicked: %v\n%s\n", r, buf)
				}
				p.status = stDone
				ex.events <- p
			}()
			vfs.Point("start")
			body(p)
		}(p, body)
		<-started
		e.await(ex, p) // runs to its start point
		ex.running = nil
	}

	taken := map[[16]byte]int{} // per-execution: how many choices already taken from a state (cycle escape)
	var path []Choice
	for step := 0; ; step++ {
		key, desc := e.stateKey(ex)
		choices := e.enabled(ex)
		isNew := false
		if _, ok := e.visited[key]; !ok {
			isNew = true
			if expand || step >= len(prefix) {
				e.visited[key] = struct{}{}
				e.Stats.States++
			}
		}
		if isNew || !expand {
			e.check(ex, dir, len(choices) == 0, path, desc)
		}
		if len(choices) == 0 {
			if isNew {
				e.Stats.Terminal++
			}
			break
		}
		var ch Choice
		if step < len(prefix) {
			ch = prefix[step]
			ok := false
			for _, c := range choices {
				if c == ch {
					ok = true
				}
			}
			if !ok {
				e.Stats.Nondeterminism++
				fmt.Fprintf(os.Stderr, "fsx: replay divergence at step %d: %v not enabled in %v (scenario %s)\n", step, ch, choices, e.Sc.Name)
				if os.Getenv("VERIF_FSX_DEBUG") != "" {
					for _, p := range ex.procs {
						fmt.Fprintf(os.Stderr, "  %s: %s\n", p.Name, strings.Join(p.log, " ; "))
					}
				}
				e.finish(ex)
				return
			}
		} else {
			idx := taken[key]
			if idx >= len(choices) {
				idx = len(choices) - 1
			}
			ch = choices[idx]
			taken[key] = idx + 1
			if isNew && expand {
				for i, alt := range choices {
					if i == idx {
						continue
					}
					np := make([]Choice, len(path)+1)
					copy(np, path)
					np[len(path)] = alt
					e.stack = append(e.stack, np)
				}
			}
		}
		tk := hash16(string(key[:]) + ch.String())
		if _, ok := e.trans[tk]; !ok {
			e.trans[tk] = struct{}{}
			e.Stats.Transitions++
		}
		path = append(path, ch)
		e.apply(ex, ch)
		if len(path) > e.Stats.MaxDepth {
			e.Stats.MaxDepth = len(path)
		}
		if len(path) > 5000 {
			fmt.Fprintf(os.Stderr, "fsx: execution exceeds 5000 steps (scenario %s); abandoned\n", e.Sc.Name)
			e.Stats.Capped = true
			e.finish(ex)
			return
		}
	}
	e.finish(ex)
}

func (e *Explorer) finish(ex *execution) {
	ctrlMu.Lock()
	current = nil
	ctrlMu.Unlock()
	// processes still parked (only after an abandoned execution) are released to run on unscheduled
	for _, p := range ex.procs {
		if p.status == stParked {
			go func(p *Proc) {
				for {
					select {
					case p.resume <- vfs.Decision{}:
					case <-time.After(2 * time.Second):
						return
					}
				}
			}(p)
		}
	}
	// drain
	go func() {
		for range ex.events {
		}
	}()
}

func (e *Explorer) await(ex *execution, p *Proc) {
	select {
	case <-ex.events:
	case <-time.After(60 * time.Second):
		buf := make([]byte, 1<<16)
		buf = buf[:runtime.Stack(buf, true)]
		fmt.Fprintf(os.Stderr, "fsx: no progress for 60s while running %s (scenario %s)\n%s\n", p.Name, e.Sc.Name, buf)
		e.Stats.Violations["hang"] = FoundViolation{Violation: Violation{Sig: "hang:" + e.Sc.Name, Msg: "a process made no progress for 60 s between two scheduling points"}, Trace: ex.trace}
		panic("fsx: hang")
	}
}

func (e *Explorer) enabled(ex *execution) []Choice {
	var run, fire []Choice
	n := len(ex.procs)
	for k := 0; k < n; k++ {
		p := ex.procs[(ex.cur+k)%n]
		if p.status != stParked {
			continue
		}
		run = append(run, Choice{'r', p.ID})
	}
	for k := 0; k < n; k++ {
		p := ex.procs[(ex.cur+k)%n]
		if p.status != stParked || p.tctx == nil || p.tctx.fired() {
			continue
		}
		if p.pending != nil && p.pending.Name == "wait" || e.Sc.TimeoutAnywhere {
			fire = append(fire, Choice{'f', p.ID})
		}
	}
	// a process sitting in a retry wait is scheduled after the others: prefer progress
	sort.SliceStable(run, func(i, j int) bool {
		wi := ex.procs[run[i].Pid-1].pending.Name == "wait"
		wj := ex.procs[run[j].Pid-1].pending.Name == "wait"
		return !wi && wj
	})
	return append(run, fire...)
}

func (e *Explorer) apply(ex *execution, ch Choice) {
	p := ex.procs[ch.Pid-1]
	if ch.Kind == 'f' {
		p.tctx.fire()
		ex.trace = append(ex.trace, fmt.Sprintf("%s: wait-timeout fires", p.Name))
		return
	}
	ex.cur = ch.Pid - 1
	d := vfs.Decision{}
	if p.pending != nil && p.pending.Name == "wait" && p.tctx != nil && p.tctx.fired() {
		d.Timeout = true
	}
	before := len(p.log)
	ex.running = p
	p.resume <- d
	e.await(ex, p)
	ex.running = nil
	for _, l := range p.log[min(before, len(p.log)):] {
		ex.trace = append(ex.trace, p.Name+": "+l)
	}
}

func (e *Explorer) world(ex *execution, dir string, final bool) *World {
	w := &World{Dir: dir, Procs: ex.procs, Files: map[string]string{}, Final: final}
	ents, _ := os.ReadDir(dir)
	for _, en := range ents {
		b, _ := os.ReadFile(filepath.Join(dir, en.Name()))
		w.Files[ex.canon(en.Name())] = string(b)
	}
	return w
}

func (e *Explorer) stateKey(ex *execution) ([16]byte, string) {
	var sb strings.Builder
	ents, _ := os.ReadDir(filepath.Join(e.BaseDir, "x"))
	names := make([]string, 0, len(ents))
	content := map[string]string{}
	for _, en := range ents {
		c := ex.canon(en.Name())
		names = append(names, c)
		b, _ := os.ReadFile(filepath.Join(e.BaseDir, "x", en.Name()))
		content[c] = string(b)
	}
	sort.Strings(names)
	for _, n := range names {
		fmt.Fprintf(&sb, "F %s=%q\n", n, content[n])
	}
	for _, p := range ex.procs {
		pend := ""
		if p.pending != nil && p.status == stParked {
			pend = p.pending.Name + " " + ex.canon(p.pending.Path)
		}
		fired := p.tctx != nil && p.tctx.fired()
		lk := p.logKey()
		fmt.Fprintf(&sb, "P%d st=%d pend=%s t=%v/%v %x\n", p.ID, p.status, pend, p.tctx != nil, fired, lk[:16])
	}
	s := sb.String()
	return hash16(s), s
}

func (e *Explorer) check(ex *execution, dir string, final bool, path []Choice, desc string) {
	if e.Sc.Check == nil {
		return
	}
	w := e.world(ex, dir, final)
	for _, p := range ex.procs {
		if p.panicV != nil {
			e.record(Violation{Sig: "panic-in-process-body:" + e.Sc.Name, Msg: fmt.Sprint(p.panicV)}, ex, path)
		}
	}
	for _, v := range e.Sc.Check(w) {
		e.record(v, ex, path)
	}
}

func (e *Explorer) record(v Violation, ex *execution, path []Choice) {
	if _, ok := e.Stats.Violations[v.Sig]; ok {
		return
	}
	sched := make([]string, len(path))
	for i, c := range path {
		sched[i] = c.String()
	}
	tr := make([]string, len(ex.trace))
	copy(tr, ex.trace)
	e.Stats.Violations[v.Sig] = FoundViolation{Violation: v, Schedule: sched, Trace: tr}
}

func ParseSchedule(ss []string) []Choice {
	out := make([]Choice, len(ss))
	for i, s := range ss {
		var pid int
		fmt.Sscanf(s[1:], "%d", &pid)
		out[i] = Choice{Kind: s[0], Pid: pid}
	}
	return out
}

func min(a, b int) int {
	if a < b {
		return a
	}
	return b
}

// ---- sequential mode ----------------------------------------------------------------------------
// With no exploration running, SequentialTimeouts(true) makes every retry wait end by the caller's
// wait-timeout at once, in virtual time: used when one csvq process image runs while the others are
// suspended between two statements, so a lock it has to wait for can never be released meanwhile.

var (
	seqMode bool
	seqCtx  *vctx
)

func SequentialTimeouts(on bool) { seqMode = on; seqCtx = nil }

func seqEnter(op *vfs.Op) vfs.Decision {
	if op.Name == "stmt" {
		seqStmt()
		return vfs.Decision{}
	}
	if op.Name == "wait" && seqCtx != nil {
		seqCtx.fire()
		return vfs.Decision{Timeout: true}
	}
	return vfs.Decision{}
}

// OnStmt, in sequential mode, is called at every statement boundary of the running csvq image
// (nested calls made from inside the callback are not reported).
var OnStmt func()
var inStmtHook bool

func seqStmt() {
	if OnStmt != nil && !inStmtHook {
		inStmtHook = true
		saved := seqCtx
		OnStmt()
		seqCtx = saved
		inStmtHook = false
	}
}
