// maprange lists every `range` over a map (and every sync.Map.Range call) in the non-test sources of a csvq tree:
// the audit behind "map iteration order is an environment answer the harness owns".
package main

import (
	"fmt"
	"go/ast"
	"go/types"
	"os"
	"strings"

	"golang.org/x/tools/go/packages"
)

func main() {
	repo := "/repo"
	if len(os.Args) > 1 {
		repo = os.Args[1]
	}
	cfg := &packages.Config{Mode: packages.NeedName | packages.NeedFiles | packages.NeedSyntax | packages.NeedTypes | packages.NeedTypesInfo | packages.NeedImports, Dir: repo}
	pkgs, err := packages.Load(cfg, "./...")
	if err != nil {
		fmt.Fprintln(os.Stderr, err)
		os.Exit(1)
	}
	for _, p := range pkgs {
		for _, f := range p.Syntax {
			ast.Inspect(f, func(n ast.Node) bool {
				switch x := n.(type) {
				case *ast.RangeStmt:
					if t := p.TypesInfo.TypeOf(x.X); t != nil {
						if _, ok := t.Underlying().(*types.Map); ok {
							pos := p.Fset.Position(x.Pos())
							fmt.Printf("%s:%d map-range\n", strings.TrimPrefix(pos.Filename, repo+"/"), pos.Line)
						}
					}
				case *ast.CallExpr:
					if sel, ok := x.Fun.(*ast.SelectorExpr); ok && sel.Sel.Name == "Range" {
						if t := p.TypesInfo.TypeOf(sel.X); t != nil && strings.Contains(t.String(), "sync.Map") {
							pos := p.Fset.Position(x.Pos())
							fmt.Printf("%s:%d sync.Map.Range\n", strings.TrimPrefix(pos.Filename, repo+"/"), pos.Line)
						}
					}
				}
				return true
			})
		}
	}
}
