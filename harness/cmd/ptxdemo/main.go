package main

import (
	"fmt"
	"os"
	"os/exec"
	"strconv"

	"verif/harness/internal/ptx"
)

// ptxdemo <dir> <killAt> <cmd> args...
func main() {
	dir := os.Args[1]
	k, _ := strconv.Atoi(os.Args[2])
	cmd := exec.Command(os.Args[3], os.Args[4:]...)
	cmd.Dir = dir
	cmd.Env = []string{"HOME=/dev/shm/verif-home-empty", "PATH=/usr/bin:/bin", "GOMAXPROCS=2"}
	r := ptx.Run(cmd, dir, k)
	for _, c := range r.Calls {
		fmt.Println(c.K, c)
	}
	fmt.Println("killed:", r.Killed, "exit:", r.Exit, "err:", r.Err, r.Stderr)
}
