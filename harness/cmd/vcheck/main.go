package main

import (
	"os"

	_ "verif/harness/checks"
	"verif/harness/internal/core"
)

func main() {
	// keep user configuration and the working directory's csvq_env.json out of every run
	home := "/dev/shm/verif-home"
	os.MkdirAll(home, 0755)
	os.Setenv("HOME", home)
	os.Setenv("XDG_CONFIG_HOME", home)
	os.Chdir(home)
	core.Main()
}
