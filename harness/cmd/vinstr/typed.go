package main

import (
	"bytes"
	"fmt"
	"go/ast"
	"go/format"
	"go/token"
	"go/types"
	"os"
	"path/filepath"
	"sort"
	"strings"

	"golang.org/x/tools/go/packages"
)

// typedRewrite loads lib/file, lib/query and lib/action with type information and applies every rewrite in
// one pass per file. It returns the overlay entries (original path -> rewritten source).
func typedRewrite(repo, out string) (map[string]string, int, []gap, error) {
	cfg := &packages.Config{
		Mode: packages.NeedName | packages.NeedFiles | packages.NeedCompiledGoFiles | packages.NeedSyntax | packages.NeedTypes | packages.NeedTypesInfo | packages.NeedImports | packages.NeedDeps,
		Dir:  repo,
		Env:  append(os.Environ(), "GOFLAGS=-mod=mod", "GOPROXY=off", "GOSUMDB=off", "GOTOOLCHAIN=local"),
	}
	pkgs, err := packages.Load(cfg, "./lib/file", "./lib/query", "./lib/action", "./lib/value")
	if err != nil {
		return nil, 0, nil, err
	}
	overlay := map[string]string{}
	var gaps []gap
	total := 0
	counts := map[string]int{}
	for _, p := range pkgs {
		if len(p.Errors) > 0 {
			return nil, 0, nil, fmt.Errorf("package %s does not type-check: %v", p.PkgPath, p.Errors[0])
		}
		for i, f := range p.Syntax {
			path := p.CompiledGoFiles[i]
			if strings.HasSuffix(path, "_test.go") {
				continue
			}
			rel, _ := filepath.Rel(repo, path)
			rw := &rewriter{info: p.TypesInfo, fset: p.Fset, rel: rel, used: map[string]bool{}, counts: counts}
			rw.file(f)
			if rw.n == 0 {
				continue
			}
			total += rw.n
			src, err := rw.print(f)
			if err != nil {
				gaps = append(gaps, gap{rel, "cannot print rewritten file: " + err.Error()})
				continue
			}
			dst := filepath.Join(out, "src", rel)
			os.MkdirAll(filepath.Dir(dst), 0755)
			if err := os.WriteFile(dst, src, 0644); err != nil {
				return nil, 0, nil, err
			}
			overlay[path] = dst
		}
	}
	for kind, min := range map[string]int{"fs": 25, "go": 5, "lock": 30, "maprange": 15, "wg": 3, "point": 3} {
		if counts[kind] < min {
			gaps = append(gaps, gap{"(all)", fmt.Sprintf("only %d rewrites of kind %s (expected >= %d)", counts[kind], kind, min)})
		}
	}
	return overlay, total, gaps, nil
}

type rewriter struct {
	info   *types.Info
	fset   *token.FileSet
	rel    string
	used   map[string]bool
	counts map[string]int
	n      int
}

func (rw *rewriter) hit(kind, shim string) {
	rw.n++
	rw.counts[kind]++
	rw.used[shim] = true
}

func (rw *rewriter) pkgOf(id *ast.Ident) string {
	if pn, ok := rw.info.Uses[id].(*types.PkgName); ok {
		return pn.Imported().Path()
	}
	return ""
}

func namedType(t types.Type) string {
	if t == nil {
		return ""
	}
	if p, ok := t.(*types.Pointer); ok {
		t = p.Elem()
	}
	if n, ok := t.(*types.Named); ok && n.Obj().Pkg() != nil {
		return n.Obj().Pkg().Path() + "." + n.Obj().Name()
	}
	return ""
}

func isPointer(t types.Type) bool { _, ok := t.(*types.Pointer); return ok }

func shimCall(pkg, fn string, args ...ast.Expr) *ast.CallExpr {
	return &ast.CallExpr{Fun: &ast.SelectorExpr{X: ast.NewIdent(pkg), Sel: ast.NewIdent(fn)}, Args: args}
}

func addr(e ast.Expr, t types.Type) ast.Expr {
	if isPointer(t) {
		return e
	}
	return &ast.UnaryExpr{Op: token.AND, X: e}
}

func (rw *rewriter) file(f *ast.File) {
	inFilePkg := strings.HasPrefix(rw.rel, "lib/file/")
	inQuery := strings.HasPrefix(rw.rel, "lib/query/")
	fsFile := inFilePkg || rw.rel == "lib/action/run.go" || rw.rel == "lib/query/transaction.go"

	// statement-level rewrites need the enclosing block: walk blocks explicitly
	var walkBlock func(list []ast.Stmt) []ast.Stmt
	var walkStmt func(s ast.Stmt) ast.Stmt
	walkStmt = func(s ast.Stmt) ast.Stmt {
		switch st := s.(type) {
		case *ast.GoStmt:
			if inQuery {
				if _, lit := st.Call.Fun.(*ast.FuncLit); !lit && len(st.Call.Args) <= 6 && !st.Call.Ellipsis.IsValid() {
					args := append([]ast.Expr{st.Call.Fun}, st.Call.Args...)
					rw.hit("go", "vrt")
					return &ast.ExprStmt{X: shimCall("vrt", fmt.Sprintf("Go%d", len(st.Call.Args)), args...)}
				}
			}
		case *ast.RangeStmt:
			if (inQuery || inFilePkg) && st.X != nil {
				if t := rw.info.TypeOf(st.X); t == nil {
					// a loop produced by this rewriter
				} else if mt, ok := t.Underlying().(*types.Map); ok && !types.IsInterface(mt.Key()) {
					// (a map keyed by an interface type is left to Go's own order: the generic helper needs a strictly
					// comparable key under the language version of csvq's go.mod)
					if r := rw.mapRange(st); r != nil {
						st.Body.List = walkBlock(st.Body.List)
						return r
					}
				}
			}
		}
		return s
	}
	walkBlock = func(list []ast.Stmt) []ast.Stmt {
		for i, s := range list {
			list[i] = walkStmt(s)
		}
		return list
	}
	ast.Inspect(f, func(n ast.Node) bool {
		switch b := n.(type) {
		case *ast.BlockStmt:
			b.List = walkBlock(b.List)
		case *ast.CaseClause:
			b.Body = walkBlock(b.Body)
		case *ast.CommClause:
			b.Body = walkBlock(b.Body)
		}
		return true
	})

	// expression-level rewrites
	ast.Inspect(f, func(n ast.Node) bool {
		call, ok := n.(*ast.CallExpr)
		if !ok {
			return true
		}
		sel, ok := call.Fun.(*ast.SelectorExpr)
		if !ok {
			return true
		}
		if id, ok := sel.X.(*ast.Ident); ok {
			if p := rw.pkgOf(id); p != "" {
				if fsFile {
					for _, r := range fsRules {
						if r.pkg == p && r.name == sel.Sel.Name {
							if (rw.rel == "lib/action/run.go") && !(r.name == "Remove" || r.name == "Create") {
								continue
							}
							if rw.rel == "lib/query/transaction.go" {
								continue
							}
							id.Name = r.shim
							sel.Sel.Name = r.to
							rw.hit("fs", r.shim)
							return true
						}
					}
				}
				return true
			}
		}
		recvT := rw.info.TypeOf(sel.X)
		switch namedType(recvT) {
		case "context.Context":
			// ctx.Err(): the moment csvq looks whether it has been cancelled (lib/query only)
			if inQuery && sel.Sel.Name == "Err" && len(call.Args) == 0 {
				call.Fun = &ast.SelectorExpr{X: ast.NewIdent("vfs"), Sel: ast.NewIdent("PollErr")}
				call.Args = []ast.Expr{sel.X}
				rw.hit("poll", "vfs")
			}
		case "os.File":
			if fsFile && isPointer(recvT) {
				to := map[string]string{"Truncate": "Truncate", "Write": "Write", "Close": "FileClose"}[sel.Sel.Name]
				if to != "" {
					call.Fun = &ast.SelectorExpr{X: ast.NewIdent("vfs"), Sel: ast.NewIdent(to)}
					call.Args = append([]ast.Expr{sel.X}, call.Args...)
					rw.hit("fs", "vfs")
				}
			}
		case "sync.Mutex", "sync.RWMutex":
			if inQuery {
				to := map[string]string{"Lock": "Lock", "Unlock": "Unlock", "RLock": "RLock", "RUnlock": "RUnlock"}[sel.Sel.Name]
				if to != "" {
					call.Fun = &ast.SelectorExpr{X: ast.NewIdent("vrt"), Sel: ast.NewIdent(to)}
					call.Args = []ast.Expr{addr(sel.X, recvT)}
					rw.hit("lock", "vrt")
				}
			}
		case "sync.Map":
			// the order in which sync.Map.Range visits its entries is as arbitrary as that of a map range: SyncMap.Range
			// and SyncMap.Keys (not Len, whose result cannot depend on it) go through the shim
			if rw.rel == "lib/query/sync_map.go" && sel.Sel.Name == "Range" && len(call.Args) == 1 {
				fn := ""
				for _, d := range f.Decls {
					if fd, ok := d.(*ast.FuncDecl); ok && fd.Pos() <= call.Pos() && call.End() <= fd.End() {
						fn = fd.Name.Name
					}
				}
				if fn == "Range" || fn == "Keys" {
					site := fmt.Sprintf("%s:%s", rw.rel, fn)
					call.Fun = &ast.SelectorExpr{X: ast.NewIdent("vrt"), Sel: ast.NewIdent("SyncRange")}
					call.Args = []ast.Expr{sel.X, call.Args[0], &ast.BasicLit{Kind: token.STRING, Value: fmt.Sprintf("%q", site)}}
					rw.hit("syncmaprange", "vrt")
				}
			}
		case "sync.Pool":
			// the pools of lib/query (scopes, key buffers, join records): Put and Get go through the shim, which can
			// keep track of what sits in a pool
			if inQuery {
				switch {
				case sel.Sel.Name == "Put" && len(call.Args) == 1:
					call.Fun = &ast.SelectorExpr{X: ast.NewIdent("vrt"), Sel: ast.NewIdent("PoolPut")}
					call.Args = []ast.Expr{addr(sel.X, recvT), call.Args[0]}
					rw.hit("pool", "vrt")
				case sel.Sel.Name == "Get" && len(call.Args) == 0:
					call.Fun = &ast.SelectorExpr{X: ast.NewIdent("vrt"), Sel: ast.NewIdent("PoolGet")}
					call.Args = []ast.Expr{addr(sel.X, recvT)}
					rw.hit("pool", "vrt")
				}
			}
		case "sync.WaitGroup":
			if rw.rel == "lib/query/goroutine_manager.go" {
				to := map[string]string{"Add": "WgAdd", "Done": "WgDone", "Wait": "WgWait"}[sel.Sel.Name]
				if to != "" {
					call.Fun = &ast.SelectorExpr{X: ast.NewIdent("vrt"), Sel: ast.NewIdent(to)}
					call.Args = append([]ast.Expr{addr(sel.X, recvT)}, call.Args...)
					rw.hit("wg", "vrt")
				}
			}
		}
		return true
	})

	// a (switchable) scheduling point at the top of every loop body in lib/query: between two iterations of any
	// loop - e.g. while a scratch slice is being filled - another worker may run (used by C12 only)
	if inQuery && !strings.HasSuffix(rw.rel, "goroutine_manager.go") {
		ast.Inspect(f, func(n ast.Node) bool {
			var body *ast.BlockStmt
			switch l := n.(type) {
			case *ast.ForStmt:
				body = l.Body
			case *ast.RangeStmt:
				body = l.Body
			}
			if body != nil {
				pt := &ast.ExprStmt{X: shimCall("vrt", "Point", &ast.BasicLit{Kind: token.STRING, Value: `"loop"`})}
				body.List = append([]ast.Stmt{pt}, body.List...)
				rw.hit("point", "vrt")
			}
			return true
		})
	}

	// points at the top of named functions
	for _, d := range f.Decls {
		fd, ok := d.(*ast.FuncDecl)
		if !ok || fd.Body == nil {
			continue
		}
		var stmt ast.Stmt
		switch {
		case rw.rel == "lib/query/processor.go" && fd.Name.Name == "ExecuteStatement":
			stmt = &ast.ExprStmt{X: shimCall("vfs", "Point", &ast.BasicLit{Kind: token.STRING, Value: `"stmt"`})}
			rw.hit("point", "vfs")
		case rw.rel == "lib/query/error.go" && fd.Name.Name == "NewSignalReceived" && fd.Recv == nil:
			// the application's signal handler builds this error right before it cancels the run: the process-mode
			// controller waits for it after sending a signal, so that "the signal was delivered before point k" does
			// not depend on how quickly the handler goroutine gets a processor
			stmt = &ast.ExprStmt{X: shimCall("vfs", "SignalSeen")}
			rw.hit("point", "vfs")
		case rw.rel == "lib/value/pool.go" && fd.Name.Name == "Discard" && fd.Recv == nil && len(fd.Type.Params.List) == 1 && len(fd.Type.Params.List[0].Names) == 1:
			stmt = &ast.ExprStmt{X: shimCall("vrt", "OnDiscard", ast.NewIdent(fd.Type.Params.List[0].Names[0].Name))}
			rw.hit("point", "vrt")
		case rw.rel == "lib/query/eval.go" && fd.Name.Name == "Evaluate" && fd.Recv == nil:
			// every expression evaluation is a (switchable) scheduling point: the explorer uses it only where asked to
			stmt = &ast.ExprStmt{X: shimCall("vrt", "Point", &ast.BasicLit{Kind: token.STRING, Value: `"eval"`})}
			rw.hit("point", "vrt")
		case rw.rel == "lib/query/goroutine_manager.go" && fd.Name.Name == "HasError" && fd.Recv != nil:
			stmt = &ast.ExprStmt{X: shimCall("vrt", "Point", &ast.BasicLit{Kind: token.STRING, Value: `"iter"`})}
			rw.hit("point", "vrt")
		}
		if stmt != nil {
			fd.Body.List = append([]ast.Stmt{stmt}, fd.Body.List...)
		}
		// lib/value/pool.go: `func getT() *T { return pool.Get().(*T) }` -> the object handed out is reported
		if rw.rel == "lib/value/pool.go" && fd.Recv == nil && strings.HasPrefix(fd.Name.Name, "get") && len(fd.Body.List) == 1 {
			if ret, ok := fd.Body.List[0].(*ast.ReturnStmt); ok && len(ret.Results) == 1 {
				v := ast.NewIdent("_vissued")
				fd.Body.List = []ast.Stmt{
					&ast.AssignStmt{Lhs: []ast.Expr{v}, Tok: token.DEFINE, Rhs: []ast.Expr{ret.Results[0]}},
					&ast.ExprStmt{X: shimCall("vrt", "OnIssue", v)},
					&ast.ReturnStmt{Results: []ast.Expr{v}},
				}
				rw.hit("point", "vrt")
			}
		}
	}
}

// mapRange rewrites `for k, v := range m { body }` into a loop over vrt.Keys(m, site).
func (rw *rewriter) mapRange(st *ast.RangeStmt) ast.Stmt {
	pos := rw.fset.Position(st.Pos())
	site := fmt.Sprintf("%s:%d", rw.rel, pos.Line)
	keyIsBlank := st.Key == nil || isBlank(st.Key)
	valIsBlank := st.Value == nil || isBlank(st.Value)
	if st.Tok == token.ASSIGN && !(keyIsBlank && valIsBlank) {
		return nil // `for k, v = range m` with outer variables: left alone (not used by csvq)
	}
	var keyExpr ast.Expr = ast.NewIdent("_vk")
	if !keyIsBlank {
		keyExpr = st.Key
	}
	mexpr := st.X
	// evaluate the map expression once
	mvar := ast.NewIdent("_vm")
	pre := &ast.AssignStmt{Lhs: []ast.Expr{mvar}, Tok: token.DEFINE, Rhs: []ast.Expr{mexpr}}
	loop := &ast.RangeStmt{
		Key: ast.NewIdent("_"), Value: keyExpr, Tok: token.DEFINE,
		X:    shimCall("vrt", "Keys", mvar, &ast.BasicLit{Kind: token.STRING, Value: fmt.Sprintf("%q", site)}),
		Body: st.Body,
	}
	if keyIsBlank && valIsBlank {
		loop.Value = ast.NewIdent("_vk")
	}
	var head []ast.Stmt
	okID := ast.NewIdent("_vok")
	var valLHS ast.Expr = ast.NewIdent("_")
	if !valIsBlank {
		valLHS = st.Value
	}
	var keyUse ast.Expr = keyExpr
	if id, ok := keyExpr.(*ast.Ident); ok {
		keyUse = ast.NewIdent(id.Name)
	}
	head = append(head,
		&ast.AssignStmt{Lhs: []ast.Expr{valLHS, okID}, Tok: token.DEFINE, Rhs: []ast.Expr{&ast.IndexExpr{X: ast.NewIdent("_vm"), Index: keyUse}}},
		&ast.IfStmt{Cond: &ast.UnaryExpr{Op: token.NOT, X: ast.NewIdent("_vok")}, Body: &ast.BlockStmt{List: []ast.Stmt{&ast.BranchStmt{Tok: token.CONTINUE}}}},
	)
	loop.Body = &ast.BlockStmt{List: append(head, st.Body.List...)}
	rw.hit("maprange", "vrt")
	return &ast.BlockStmt{List: []ast.Stmt{pre, loop}}
}

func isBlank(e ast.Expr) bool {
	id, ok := e.(*ast.Ident)
	return ok && id.Name == "_"
}

func (rw *rewriter) print(f *ast.File) ([]byte, error) {
	// imports that lost their last use become blank imports
	usedPkg := map[string]bool{}
	ast.Inspect(f, func(n ast.Node) bool {
		if sel, ok := n.(*ast.SelectorExpr); ok {
			if id, ok := sel.X.(*ast.Ident); ok {
				if pn, ok := rw.info.Uses[id].(*types.PkgName); ok && id.Name == pn.Name() {
					usedPkg[pn.Name()] = true
				}
			}
		}
		return true
	})
	for _, is := range f.Imports {
		var name string
		if is.Name != nil {
			name = is.Name.Name
		} else if pn, ok := rw.info.Implicits[is].(*types.PkgName); ok {
			name = pn.Name()
		}
		if name == "_" || name == "." || name == "" {
			continue
		}
		if !usedPkg[name] {
			is.Name = ast.NewIdent("_")
		}
	}
	var buf bytes.Buffer
	if err := format.Node(&buf, rw.fset, f); err != nil {
		return nil, err
	}
	src := buf.String()
	var add strings.Builder
	names := make([]string, 0, len(rw.used))
	for s := range rw.used {
		names = append(names, s)
	}
	sort.Strings(names)
	for _, s := range names {
		fmt.Fprintf(&add, "import %s %q\n", s, shimBase+s)
	}
	idx := strings.Index(src, "\nimport")
	if idx < 0 {
		idx = strings.Index(src, "\n\n")
	}
	src = src[:idx+1] + add.String() + src[idx+1:]
	// a continue inside a labelled/select body keeps its meaning; the only caveat is a `break`/`continue` label on
	// the original range statement, which csvq does not use on map ranges
	return []byte(src), nil
}
