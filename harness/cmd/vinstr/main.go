// vinstr generates, from /repo's current working tree, the overlay that routes csvq's file-system
// steps, waits and (later) synchronisation through the shim packages in /verif/shim.
//
//	vinstr -repo /repo -shim /verif/shim -out DIR   → DIR/overlay.json (+ rewritten sources under DIR/src)
//
// Rewriting is purely at call sites (selector expressions resolved through the file's imports); no type
// or signature in csvq changes, so the repository's own tests compile through the overlay unchanged.
// A rewrite target that no longer exists is skipped and listed in DIR/gaps.json.
package main

import (
	"bytes"
	"encoding/json"
	"flag"
	"fmt"
	"go/ast"
	"go/format"
	"go/parser"
	"go/token"
	"os"
	"path/filepath"
	"sort"
	"strconv"
	"strings"
)

const shimBase = "github.com/mithrandie/csvq/lib/verifshim/"

type selRule struct{ pkg, name, shim, to string } // pkg path . name  →  shim pkg . to

var fsRules = []selRule{
	{"os", "Stat", "vfs", "Stat"},
	{"os", "Remove", "vfs", "Remove"},
	{"os", "Rename", "vfs", "Rename"},
	{"path/filepath", "Glob", "vfs", "Glob"},
	{"github.com/mithrandie/go-file/v2", "Create", "vfs", "Create"},
	{"github.com/mithrandie/go-file/v2", "Close", "vfs", "Close"},
	{"github.com/mithrandie/go-file/v2", "OpenToReadContext", "vfs", "OpenToReadContext"},
	{"github.com/mithrandie/go-file/v2", "OpenToUpdateContext", "vfs", "OpenToUpdateContext"},
	{"time", "After", "vfs", "After"},
	{"context", "WithTimeout", "vfs", "WithTimeout"},
}

// method calls on identifiers with a known name: recv.Method(args) → vfs.To(recv, args)
type methRule struct{ recv, method, to string }

type fileSpec struct {
	glob     string // relative to repo
	sel      []selRule
	meth     []methRule
	funcTop  map[string]string // function name → statement text to insert at the top of its body
	expected int               // minimum number of rewrites expected (for gap reporting)
}

var specs = []fileSpec{
	{glob: "lib/file/*.go", sel: fsRules, expected: 20},
	{glob: "lib/action/run.go", sel: []selRule{fsRules[1], fsRules[4]}, meth: []methRule{{"fp", "Close", "FileClose"}}, expected: 3},
	{glob: "lib/query/transaction.go", meth: []methRule{{"fp", "Truncate", "Truncate"}, {"fp", "Write", "Write"}}, expected: 4},
	{glob: "lib/query/processor.go", funcTop: map[string]string{"ExecuteStatement": `vfs.Point("stmt")`}, expected: 1},
}

type gap struct{ File, What string }

func main() {
	repo := flag.String("repo", "/repo", "")
	shim := flag.String("shim", "/verif/shim", "")
	out := flag.String("out", "", "")
	flag.Parse()
	if *out == "" {
		fmt.Fprintln(os.Stderr, "need -out")
		os.Exit(2)
	}
	os.RemoveAll(*out)
	os.MkdirAll(filepath.Join(*out, "src"), 0755)
	overlay := map[string]string{}
	var gaps []gap
	total := 0

	if ov, n, gs, err := typedRewrite(*repo, *out); err == nil {
		overlay, total, gaps = ov, n, gs
	} else {
		// no type information (the tree does not type-check through go/packages): purely syntactic fallback,
		// file-system steps only; goroutine, lock and map-iteration points are missing
		gaps = append(gaps, gap{"(all)", "typed instrumentation unavailable: " + err.Error() + "; syntactic fallback (no goroutine/lock/map-order points)"})
		os.RemoveAll(filepath.Join(*out, "src"))
		os.MkdirAll(filepath.Join(*out, "src"), 0755)
		overlay, total, gaps = syntacticRewrite(*repo, *out, gaps)
	}

	// virtual shim packages
	shims, _ := filepath.Glob(filepath.Join(*shim, "*", "*.go"))
	for _, f := range shims {
		rel, _ := filepath.Rel(*shim, f)
		overlay[filepath.Join(*repo, "lib", "verifshim", rel)] = f
	}
	// extra files added to existing csvq packages: /verif/shim/_add/<pkg path>/<file>.go
	adds, _ := filepath.Glob(filepath.Join(*shim, "_add", "*", "*", "*.go"))
	for _, f := range adds {
		rel, _ := filepath.Rel(filepath.Join(*shim, "_add"), f)
		overlay[filepath.Join(*repo, rel)] = f
	}

	b, _ := json.MarshalIndent(map[string]any{"Replace": overlay}, "", " ")
	os.WriteFile(filepath.Join(*out, "overlay.json"), b, 0644)
	gb, _ := json.MarshalIndent(map[string]any{"rewrites": total, "gaps": gaps}, "", " ")
	os.WriteFile(filepath.Join(*out, "gaps.json"), gb, 0644)
	fmt.Printf("vinstr: %d call sites rewritten in %d files, %d gaps\n", total, len(overlay)-len(shims)-len(adds), len(gaps))
}

func syntacticRewrite(repo, out string, gaps []gap) (map[string]string, int, []gap) {
	overlay := map[string]string{}
	total := 0
	for _, sp := range specs {
		files, _ := filepath.Glob(filepath.Join(repo, sp.glob))
		sort.Strings(files)
		n := 0
		for _, f := range files {
			if strings.HasSuffix(f, "_test.go") {
				continue
			}
			src, k, err := rewrite(f, sp)
			if err != nil {
				gaps = append(gaps, gap{f, "not rewritten: " + err.Error()})
				continue
			}
			if k == 0 {
				continue
			}
			n += k
			rel, _ := filepath.Rel(repo, f)
			dst := filepath.Join(out, "src", rel)
			os.MkdirAll(filepath.Dir(dst), 0755)
			if err := os.WriteFile(dst, src, 0644); err != nil {
				panic(err)
			}
			overlay[f] = dst
		}
		if n < sp.expected {
			gaps = append(gaps, gap{sp.glob, fmt.Sprintf("only %d of the expected >=%d call sites found", n, sp.expected)})
		}
		total += n
	}

	return overlay, total, gaps
}

func rewrite(path string, sp fileSpec) ([]byte, int, error) {
	fset := token.NewFileSet()
	f, err := parser.ParseFile(fset, path, nil, parser.ParseComments)
	if err != nil {
		return nil, 0, err
	}
	// import name → path
	imp := map[string]string{}
	for _, is := range f.Imports {
		p, _ := strconv.Unquote(is.Path.Value)
		name := filepath.Base(p)
		if strings.HasPrefix(name, "v") && len(name) <= 3 { // .../go-file/v2 → package name "file"
			name = strings.TrimPrefix(filepath.Base(filepath.Dir(p)), "go-")
		}
		if is.Name != nil {
			name = is.Name.Name
		}
		imp[name] = p
	}
	used := map[string]bool{}
	count := 0
	ast.Inspect(f, func(n ast.Node) bool {
		call, ok := n.(*ast.CallExpr)
		if !ok {
			return true
		}
		sel, ok := call.Fun.(*ast.SelectorExpr)
		if !ok {
			return true
		}
		id, ok := sel.X.(*ast.Ident)
		if !ok {
			return true
		}
		if id.Obj == nil { // not a local object → may be a package name
			if p, ok := imp[id.Name]; ok {
				for _, r := range sp.sel {
					if r.pkg == p && r.name == sel.Sel.Name {
						id.Name = r.shim
						sel.Sel.Name = r.to
						used[r.shim] = true
						count++
						return true
					}
				}
			}
		}
		for _, r := range sp.meth {
			if id.Name == r.recv && sel.Sel.Name == r.method {
				if _, isPkg := imp[id.Name]; isPkg && id.Obj == nil {
					continue
				}
				call.Fun = &ast.SelectorExpr{X: ast.NewIdent("vfs"), Sel: ast.NewIdent(r.to)}
				call.Args = append([]ast.Expr{ast.NewIdent(r.recv)}, call.Args...)
				used["vfs"] = true
				count++
				return true
			}
		}
		return true
	})
	for _, d := range f.Decls {
		fd, ok := d.(*ast.FuncDecl)
		if !ok || fd.Body == nil {
			continue
		}
		if stmt, ok := sp.funcTop[fd.Name.Name]; ok {
			e, err := parser.ParseExpr(stmt)
			if err != nil {
				return nil, 0, err
			}
			fd.Body.List = append([]ast.Stmt{&ast.ExprStmt{X: e}}, fd.Body.List...)
			used["vfs"] = true
			count++
		}
	}
	if count == 0 {
		return nil, 0, nil
	}
	// imports that lost their last use become blank imports
	for _, is := range f.Imports {
		p, _ := strconv.Unquote(is.Path.Value)
		var name string
		for n, ip := range imp {
			if ip == p {
				name = n
			}
		}
		if name == "_" || name == "." {
			continue
		}
		if !usesName(f, name) {
			is.Name = ast.NewIdent("_")
		}
	}
	var buf bytes.Buffer
	if err := format.Node(&buf, fset, f); err != nil {
		return nil, 0, err
	}
	// add shim imports textually after the package clause (keeps comment positions intact)
	src := buf.String()
	var add strings.Builder
	names := make([]string, 0, len(used))
	for s := range used {
		names = append(names, s)
	}
	sort.Strings(names)
	for _, s := range names {
		fmt.Fprintf(&add, "import %s %q\n", s, shimBase+s)
	}
	idx := strings.Index(src, "\nimport")
	if idx < 0 {
		idx = strings.Index(src, "\n\n")
	}
	src = src[:idx+1] + add.String() + src[idx+1:]
	return []byte(src), count, nil
}

func usesName(f *ast.File, name string) bool {
	found := false
	ast.Inspect(f, func(n ast.Node) bool {
		if sel, ok := n.(*ast.SelectorExpr); ok {
			if id, ok := sel.X.(*ast.Ident); ok && id.Name == name && id.Obj == nil {
				found = true
			}
		}
		return !found
	})
	return found
}
