module verif/harness

go 1.22.0

toolchain go1.23.5

require (
	github.com/mithrandie/csvq v0.0.0
	github.com/mithrandie/ternary v1.1.1
	golang.org/x/text v0.8.0
)

require (
	golang.org/x/mod v0.22.0 // indirect
	golang.org/x/sync v0.10.0 // indirect
)

require (
	github.com/mitchellh/go-homedir v1.1.0 // indirect
	github.com/mithrandie/go-file/v2 v2.1.0 // indirect
	github.com/mithrandie/go-text v1.6.0
	golang.org/x/crypto v0.7.0 // indirect
	golang.org/x/sys v0.29.0 // indirect
	golang.org/x/term v0.6.0 // indirect
	golang.org/x/tools v0.29.0
)

replace github.com/mithrandie/csvq => /repo
