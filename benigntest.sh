#!/bin/bash
# ./benigntest.sh <patch.diff> <ID> [<ID> ...]  — applies a property-PRESERVING change to a scratch worktree of /repo's
# HEAD (never to /repo itself) and runs the quick checks named against it: every one of them has to exit 0.
P=$1; shift
V=$(cd "$(dirname "$0")" && pwd)
WT=/tmp/benignwt-$$
git -C /repo worktree add -q --detach $WT HEAD || exit 9
cleanup() { git -C /repo worktree remove --force $WT 2>/dev/null; rm -rf $V/.bin/alt-$(echo $WT | tr '/' '_'); }
trap cleanup EXIT
( cd $WT && git apply "$P" ) || { echo "patch does not apply"; exit 9; }
for ID in "$@"; do
  VERIF_REPO=$WT VERIF_NO_EVIDENCE=1 $V/check "$ID" quick > /tmp/benigntest.$$.log 2>&1; rc=$?
  echo "$(basename $(dirname $P)) $ID exit=$rc $(grep -E "^$ID quick" /tmp/benigntest.$$.log | grep -o 'exhaustive=[a-z]*')"
  if [ $rc -ne 0 ]; then grep -E "^(VIOLATION|BUILD-FAILED)" /tmp/benigntest.$$.log | head -3; grep -A1 "^--- " /tmp/benigntest.$$.log | cut -c1-400 | head -8; tail -3 /tmp/benigntest.$$.log | cut -c1-300; fi
  rm -f /tmp/benigntest.$$.log
done
