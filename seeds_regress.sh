#!/bin/bash
# ./seeds_regress.sh [pattern]  — runs every seeded change under /verif/seeded (optionally only names matching the
# pattern) against the quick check of the property it breaks, in a scratch worktree each (seedtest.sh), and
# writes seeded/regress.tsv: seed, check, exit code (1 = detected), first violation line.
cd "$(dirname "$0")"
PAT=${1:-.}
OUT=seeded/regress.tsv
TMP=$(mktemp)
one() {
  d=$1
  s=$(basename $d)
  id=${s%%-*}
  p=$d/patch.diff; [ -f $d/patch.rebased.diff ] && p=$d/patch.rebased.diff
  r=$(timeout 1500 ./seedtest.sh $(pwd)/$p $id quick 2>&1)
  rc=$(echo "$r" | grep -o 'exit=[0-9]*' | tail -1 | cut -d= -f2)
  sig=$(echo "$r" | grep '^--- ' | head -1 | cut -c5-160)
  [ -z "$sig" ] && sig=$(echo "$r" | grep -E "patch does not apply|BUILD-FAILED" | head -1)
  printf "%s\t%s\t%s\t%s\n" "$s" "$id" "${rc:-?}" "$sig"
}
export -f one
# SEEDS_PAR (default 1): seeds tested at the same time
ls -d seeded/*/ | while read d; do basename $d | grep -Eq "$PAT" && echo $d; done | xargs -P ${SEEDS_PAR:-1} -I{} bash -c 'one {}' | tee -a $TMP
if [ "$PAT" = "." ]; then mv $TMP $OUT; else cat $TMP >> $OUT; rm -f $TMP; fi
