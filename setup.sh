#!/bin/bash
# one-time setup after a fresh restore (offline): warm the Go build cache for every artefact the checks build
set -eu
V=$(cd "$(dirname "$0")" && pwd)
export GOFLAGS=-mod=mod GOPROXY=off GOSUMDB=off GOTOOLCHAIN=local
"$V/build.sh" all
echo "setup ok"
