// Package vrt is the seam for goroutine scheduling, mutual exclusion and map iteration order inside
// lib/query. It is mapped by the overlay to github.com/mithrandie/csvq/lib/verifshim/vrt; call sites are
// produced by vinstr. With no scheduler installed every function does exactly what the original statement
// did (go f(x), mu.Lock(), wg.Wait(), for k, v := range m).
package vrt

import (
	"fmt"
	"os"
	"reflect"
	"runtime"
	"sort"
	"strconv"
	"strings"
	"sync"
	"sync/atomic"
)

// Sched is implemented by the goroutine-schedule explorer (harness/internal/gox).
type Sched interface {
	Active() bool
	Spawn(fn func())
	Point(kind string)
	Lock(l sync.Locker)
	Unlock(l sync.Locker)
	WgAdd(wg *sync.WaitGroup, n int)
	WgDone(wg *sync.WaitGroup)
	WgWait(wg *sync.WaitGroup)
	MapOrder(n int, site string) []int
}

var S Sched

//go:norace
func on() bool { return S != nil && S.Active() }

func spawn(fn func()) {
	if on() {
		S.Spawn(fn)
		return
	}
	go fn()
}

// GoN(f, args...) = `go f(args...)`: the arguments are evaluated by the caller, as the go statement does.
func Go0(f func())                                    { spawn(f) }
func Go1[A any](f func(A), a A)                       { spawn(func() { f(a) }) }
func Go2[A, B any](f func(A, B), a A, b B)            { spawn(func() { f(a, b) }) }
func Go3[A, B, C any](f func(A, B, C), a A, b B, c C) { spawn(func() { f(a, b, c) }) }
func Go4[A, B, C, D any](f func(A, B, C, D), a A, b B, c C, d D) {
	spawn(func() { f(a, b, c, d) })
}
func Go5[A, B, C, D, E any](f func(A, B, C, D, E), a A, b B, c C, d D, e E) {
	spawn(func() { f(a, b, c, d, e) })
}
func Go6[A, B, C, D, E, F any](f func(A, B, C, D, E, F), a A, b B, c C, d D, e E, g F) {
	spawn(func() { f(a, b, c, d, e, g) })
}

// Point is a bare scheduling point (one per record in every parallel loop: GoroutineTaskManager.HasError).
func Point(kind string) {
	if on() {
		S.Point(kind)
	}
}

func Lock(l sync.Locker) {
	if on() {
		S.Lock(l)
		return
	}
	l.Lock()
}

func Unlock(l sync.Locker) {
	if on() {
		S.Unlock(l)
		return
	}
	l.Unlock()
}

type rlocker interface {
	RLock()
	RUnlock()
}

// read locks are not scheduling points (no worker goroutine takes one); they stay native
func RLock(l rlocker)   { l.RLock() }
func RUnlock(l rlocker) { l.RUnlock() }

func WgAdd(wg *sync.WaitGroup, n int) {
	if on() {
		S.WgAdd(wg, n)
		return
	}
	wg.Add(n)
}

func WgDone(wg *sync.WaitGroup) {
	if on() {
		S.WgDone(wg)
		return
	}
	wg.Done()
}

func WgWait(wg *sync.WaitGroup) {
	if on() {
		S.WgWait(wg)
		return
	}
	wg.Wait()
}

// Keys returns the keys of m in the order a `for k := range m` loop visits them. Without a scheduler that is
// Go's own (randomised) order; with one, the keys are put in a canonical order and then permuted as the
// explorer decides: map iteration order becomes an explicit, enumerable choice.
func Keys[K comparable, V any](m map[K]V, site string) []K {
	ks := make([]K, 0, len(m))
	for k := range m {
		ks = append(ks, k)
	}
	if len(ks) < 2 {
		return ks
	}
	if !on() {
		if !procOrder() {
			return ks
		}
		sort.Slice(ks, func(i, j int) bool { return fmt.Sprint(ks[i]) < fmt.Sprint(ks[j]) })
		perm := procPerm(len(ks), site)
		out := make([]K, len(ks))
		for i, p := range perm {
			out[i] = ks[p]
		}
		return out
	}
	sort.Slice(ks, func(i, j int) bool { return fmt.Sprint(ks[i]) < fmt.Sprint(ks[j]) })
	perm := S.MapOrder(len(ks), site)
	if len(perm) != len(ks) {
		return ks
	}
	out := make([]K, len(ks))
	for i, p := range perm {
		out[i] = ks[p]
	}
	return out
}

// SyncRange is sync.Map.Range with the same treatment: the entries are snapshotted, put in canonical key order
// and visited in the order the explorer (or the process-mode setting) decides.
func SyncRange(m *sync.Map, fn func(key, value any) bool, site string) {
	if !on() && !procOrder() {
		m.Range(fn)
		return
	}
	type kv struct{ k, v any }
	var es []kv
	m.Range(func(k, v any) bool {
		es = append(es, kv{k, v})
		return true
	})
	if len(es) >= 2 {
		sort.Slice(es, func(i, j int) bool { return fmt.Sprint(es[i].k) < fmt.Sprint(es[j].k) })
		var perm []int
		if on() {
			perm = S.MapOrder(len(es), site)
		} else {
			perm = procPerm(len(es), site)
		}
		if len(perm) == len(es) {
			out := make([]kv, len(es))
			for i, p := range perm {
				out[i] = es[p]
			}
			es = out
		}
	}
	for _, e := range es {
		if !fn(e.k, e.v) {
			return
		}
	}
}

// Process mode (the real CLI as a child process, no scheduler): with VERIF_MAPORDER set, every map-range
// site visits its keys in sorted order, except that the j-th call (counting calls with two or more keys, from
// 1) uses the p-th permutation in lexicographic order for each "j:p" in the comma separated value.
// VERIF_MAPLOG=<file> appends "<j> <site> <n>" for every such call, so the harness can enumerate (j, p).
var (
	procOnce  sync.Once
	procOn    bool
	procDev   map[int64]int
	procLog   *os.File
	procCalls int64
	procRev   bool // VERIF_MAPORDER=rev: every map range visits its keys in descending order
)

func procOrder() bool {
	procOnce.Do(func() {
		v, ok := os.LookupEnv("VERIF_MAPORDER")
		if !ok {
			return
		}
		procOn = true
		procDev = map[int64]int{}
		procRev = v == "rev"
		for _, f := range strings.Split(v, ",") {
			jp := strings.SplitN(f, ":", 2)
			if len(jp) != 2 {
				continue
			}
			j, e1 := strconv.ParseInt(jp[0], 10, 64)
			p, e2 := strconv.Atoi(jp[1])
			if e1 == nil && e2 == nil {
				procDev[j] = p
			}
		}
		if lf := os.Getenv("VERIF_MAPLOG"); lf != "" {
			procLog, _ = os.OpenFile(lf, os.O_CREATE|os.O_WRONLY|os.O_APPEND, 0644)
		}
	})
	return procOn
}

// SetProcOrder gives the in-process harness the control that VERIF_MAPORDER gives a child process: on=false
// returns to Go's own order; the call counter restarts.
func SetProcOrder(spec string, on bool) {
	procOnce.Do(func() {})
	procOn = on
	procRev = spec == "rev"
	procDev = map[int64]int{}
	for _, f := range strings.Split(spec, ",") {
		jp := strings.SplitN(f, ":", 2)
		if len(jp) != 2 {
			continue
		}
		j, e1 := strconv.ParseInt(jp[0], 10, 64)
		p, e2 := strconv.Atoi(jp[1])
		if e1 == nil && e2 == nil {
			procDev[j] = p
		}
	}
	atomic.StoreInt64(&procCalls, 0)
}

// ProcCalls is the number of map ranges over two or more keys since the order was set.
func ProcCalls() int64 { return atomic.LoadInt64(&procCalls) }

func procPerm(n int, site string) []int {
	j := atomic.AddInt64(&procCalls, 1)
	if procLog != nil {
		fmt.Fprintf(procLog, "%d %s %d\n", j, site, n)
	}
	if procRev {
		out := make([]int, n)
		for i := range out {
			out[i] = n - 1 - i
		}
		return out
	}
	return NthPerm(n, procDev[j])
}

// NthPerm is the p-th permutation of 0..n-1 in lexicographic order (p taken modulo n!, n capped at 12).
func NthPerm(n, p int) []int {
	rest := make([]int, n)
	for i := range rest {
		rest[i] = i
	}
	if p <= 0 || n > 12 {
		return rest
	}
	fact := 1
	for i := 2; i <= n; i++ {
		fact *= i
	}
	p %= fact
	out := make([]int, 0, n)
	for i := n; i >= 1; i-- {
		fact /= i
		q := p / fact
		p %= fact
		out = append(out, rest[q])
		rest = append(rest[:q], rest[q+1:]...)
	}
	return out
}

// DiscardHook, when set, sees every object handed to value.Discard before it goes back to its pool.
var DiscardHook func(p any)

func OnDiscard(p any) {
	if DiscardHook != nil {
		DiscardHook(p)
	}
	if poolTrack {
		trackDiscard(p)
	}
}

// Pool tracking (C14): an object handed to Discard sits in its pool until getT hands it out again; a second
// Discard of an object that is still in its pool puts it there twice, and two later allocations get the same object.
var (
	poolTrack   bool
	poolMu      sync.Mutex
	inPool      map[uintptr]pooled // holds the object: its address cannot be re-used by an unrelated allocation while it is recorded
	doubleFrees []string
)

type pooled struct {
	obj any
	who string
}

// TrackPools switches the tracking on (and clears what was recorded).
func TrackPools(on bool) {
	poolMu.Lock()
	poolTrack, inPool, doubleFrees = on, map[uintptr]pooled{}, nil
	poolMu.Unlock()
}

// DoubleDiscards returns and clears the recorded double discards ("<second caller> after <first caller>").
func DoubleDiscards() []string {
	poolMu.Lock()
	d := doubleFrees
	doubleFrees = nil
	poolMu.Unlock()
	return d
}

// ptrKey is the address of a pooled value object (0 for anything Discard does not put into a pool: booleans,
// ternaries and NULL are shared constants).
func ptrKey(p any) uintptr {
	v := reflect.ValueOf(p)
	if v.Kind() == reflect.Pointer && !v.IsNil() {
		switch v.Type().Elem().Name() {
		case "String", "Integer", "Float", "Datetime":
			return v.Pointer()
		}
	}
	return 0
}

func csvqCaller() string {
	pcs := make([]uintptr, 14)
	n := runtime.Callers(3, pcs)
	fr := runtime.CallersFrames(pcs[:n])
	for {
		f, more := fr.Next()
		if strings.Contains(f.Function, "mithrandie/csvq/lib/") && !strings.HasSuffix(f.Function, "value.Discard") && !strings.Contains(f.Function, "verifshim") {
			return strings.TrimPrefix(f.Function, "github.com/mithrandie/csvq/lib/")
		}
		if !more {
			return "?"
		}
	}
}

func trackDiscard(p any) {
	k := ptrKey(p)
	if k == 0 {
		return
	}
	who := csvqCaller()
	poolMu.Lock()
	if first, ok := inPool[k]; ok {
		doubleFrees = append(doubleFrees, who+" after "+first.who)
	} else {
		inPool[k] = pooled{p, who}
	}
	poolMu.Unlock()
}

// InPool tells whether the object sits in its pool right now (handed to Discard and not issued again), and who put it there.
func InPool(p any) (string, bool) {
	if !poolTrack {
		return "", false
	}
	k := ptrKey(p)
	if k == 0 {
		return "", false
	}
	poolMu.Lock()
	e, ok := inPool[k]
	poolMu.Unlock()
	return e.who, ok
}

// OnIssue is called by lib/value's getString/getInteger/getFloat/getDatetime with the object they hand out.
func OnIssue(p any) {
	if !poolTrack {
		return
	}
	k := ptrKey(p)
	poolMu.Lock()
	delete(inPool, k)
	poolMu.Unlock()
}

// PoolPut / PoolGet stand for (*sync.Pool).Put / Get in lib/query (block scopes, node scopes, key buffers, join
// records): with the tracking on, an object put into a pool while it still sits there is recorded as a double
// release - two later Gets would hand the same object to two owners.
func PoolPut(p *sync.Pool, x any) {
	if poolTrack {
		if k := poolKey(reflect.ValueOf(x), 0); k != 0 {
			who := csvqCaller()
			poolMu.Lock()
			if first, ok := inPool[k]; ok {
				doubleFrees = append(doubleFrees, who+" after "+first.who)
			} else {
				inPool[k] = pooled{x, who}
			}
			poolMu.Unlock()
		}
	}
	p.Put(x)
}

func PoolGet(p *sync.Pool) any {
	x := p.Get()
	if poolTrack {
		if k := poolKey(reflect.ValueOf(x), 0); k != 0 {
			poolMu.Lock()
			delete(inPool, k)
			poolMu.Unlock()
		}
	}
	return x
}

// poolKey is the identity of a pooled object: the address a pointer, map or slice refers to; for a struct (the
// scopes are structs of maps) that of its first field.
func poolKey(v reflect.Value, depth int) uintptr {
	if !v.IsValid() || depth > 4 {
		return 0
	}
	switch v.Kind() {
	case reflect.Pointer, reflect.Map:
		if v.IsNil() {
			return 0
		}
		return v.Pointer()
	case reflect.Slice:
		if v.IsNil() || v.Cap() == 0 {
			return 0
		}
		return v.Pointer()
	case reflect.Interface:
		return poolKey(v.Elem(), depth+1)
	case reflect.Struct:
		if v.NumField() == 0 {
			return 0
		}
		return poolKey(v.Field(0), depth+1)
	}
	return 0
}
