// Package vfs is the seam through which instrumented csvq code performs its
// file-system steps, waits and timeouts. It is mapped by `go build -overlay`
// to github.com/mithrandie/csvq/lib/verifshim/vfs; the call sites are produced
// by /verif/harness/cmd/vinstr from /repo's working tree.
//
// With no Controller installed every function is a pass-through that does what
// the original call did (os.*, filepath.Glob, time.After, context.WithTimeout
// and the four go-file entry points lib/file uses). A Controller sees every
// step before it happens (scheduling point, crash point, fault-injection
// point) and after it happened (observation log).
package vfs

import (
	"context"
	"os"
	"path/filepath"
	"runtime"
	"sync/atomic"
	"time"

	gofile "github.com/mithrandie/go-file/v2"
)

type Op struct {
	Name  string // stat remove rename glob create close openr openw trylock wait truncate seek write fclose stmt ...
	Path  string
	Path2 string
	Gid   int64 // goroutine id of the caller (filled by the package)
}

type Decision struct {
	Inject  error // non-nil: do not perform the step, fail it with this error
	Timeout bool  // for "wait": the caller's wait-timeout fires instead of the retry delay
	Real    bool  // for "wait": wait on the real clock (controllers that do not virtualise time)
}

type Controller interface {
	Enter(op *Op) Decision
	Exit(op *Op, result string)
	// WithTimeout lets the controller virtualise the wait timeout; ok=false means use the real clock.
	WithTimeout(parent context.Context, d time.Duration) (ctx context.Context, cancel context.CancelFunc, ok bool)
}

var C Controller

func enter(name, p1, p2 string) (*Op, Decision) {
	if C == nil {
		return nil, Decision{}
	}
	op := &Op{Name: name, Path: p1, Path2: p2}
	return op, C.Enter(op)
}

func exit(op *Op, res string) {
	if op != nil && C != nil {
		C.Exit(op, res)
	}
}

func errRes(err error) string {
	if err == nil {
		return "ok"
	}
	switch {
	case os.IsNotExist(err):
		return "ENOENT"
	case os.IsExist(err):
		return "EEXIST"
	case os.IsPermission(err):
		return "EACCES"
	}
	return "err:" + err.Error()
}

// Point is a bare scheduling / crash / signal point (statement boundaries).
func Point(name string) {
	op, _ := enter(name, "", "")
	exit(op, "")
}

// PollPoints makes every look at the context's cancellation (ctx.Err() in lib/query) a numbered point. It is
// switched on by VERIF_POLL_POINTS=1 in process mode only: there a signal can then be delivered right before any
// such look, i.e. in the middle of loading, evaluating or encoding. The schedule explorers leave it off (a look at
// the context touches nothing that another process or goroutine can see).
var PollPoints bool

func PollErr(ctx context.Context) error {
	if PollPoints {
		Point("poll")
	}
	// Process mode, after a signal that the application's handler has reported (SignalSeen): the handler's next step is
	// to cancel the run. On a starved machine the handler goroutine can lose the processor between the two, and the main
	// goroutine would finish the whole program "before the signal". The first look at the cancellation after a reported
	// signal therefore waits (once per process, at most 20 s) until the context it looks at is cancelled; a program
	// that looks at a context the handler does not cancel goes on after that time and is judged by what it does then.
	if atomic.LoadInt32(&signalsSeen) > 0 && ctx.Err() == nil && atomic.CompareAndSwapInt32(&cancelAwaited, 0, 1) {
		for start := time.Now(); ctx.Err() == nil && time.Since(start) < 20*time.Second; {
			runtime.Gosched()
			time.Sleep(100 * time.Microsecond)
		}
	}
	return ctx.Err()
}

var cancelAwaited int32

func Stat(name string) (os.FileInfo, error) {
	op, d := enter("stat", name, "")
	if d.Inject != nil {
		exit(op, errRes(d.Inject))
		return nil, &os.PathError{Op: "stat", Path: name, Err: d.Inject}
	}
	fi, err := os.Stat(name)
	exit(op, errRes(err))
	return fi, err
}

func Remove(name string) error {
	op, d := enter("remove", name, "")
	if d.Inject != nil {
		exit(op, errRes(d.Inject))
		return &os.PathError{Op: "remove", Path: name, Err: d.Inject}
	}
	err := os.Remove(name)
	exit(op, errRes(err))
	return err
}

func Rename(oldpath, newpath string) error {
	op, d := enter("rename", oldpath, newpath)
	if d.Inject != nil {
		exit(op, errRes(d.Inject))
		return &os.LinkError{Op: "rename", Old: oldpath, New: newpath, Err: d.Inject}
	}
	err := os.Rename(oldpath, newpath)
	exit(op, errRes(err))
	return err
}

func Glob(pattern string) ([]string, error) {
	op, d := enter("glob", pattern, "")
	if d.Inject != nil {
		exit(op, errRes(d.Inject))
		return nil, nil // filepath.Glob ignores I/O errors
	}
	m, err := filepath.Glob(pattern)
	res := ""
	for _, x := range m {
		res += filepath.Base(x) + ";"
	}
	exit(op, "["+res+"]")
	return m, err
}

// ---- the go-file entry points used by lib/file, step by step ----------------------------------

func openFile(path string, flag int) (*os.File, error) {
	var perm os.FileMode = 0600
	if flag == os.O_RDONLY {
		perm = 0400
	}
	fp, err := os.OpenFile(path, flag, perm)
	if err != nil {
		return nil, gofile.NewIOError(err.Error())
	}
	return fp, nil
}

// Create = gofile.Create: O_CREATE|O_EXCL|O_RDWR, then a non-blocking exclusive flock.
func Create(path string) (*os.File, error) {
	op, d := enter("create", path, "")
	if d.Inject != nil {
		exit(op, errRes(d.Inject))
		return nil, gofile.NewIOError((&os.PathError{Op: "open", Path: path, Err: d.Inject}).Error())
	}
	fp, err := os.OpenFile(path, os.O_CREATE|os.O_EXCL|os.O_RDWR, 0600)
	if err != nil {
		exit(op, errRes(err))
		return nil, gofile.NewIOError(err.Error())
	}
	if err := gofile.TryLockEX(fp); err != nil {
		_ = fp.Close()
		exit(op, "locked")
		return fp, gofile.NewLockError(err.Error())
	}
	note(fp, path)
	exit(op, "ok")
	return fp, nil
}

// Close = gofile.Close: unlock, then close.
func Close(fp *os.File) (err error) {
	op, d := enter("close", name(fp), "")
	if d.Inject != nil {
		exit(op, errRes(d.Inject))
		return gofile.NewLockError(d.Inject.Error())
	}
	defer func() { _ = fp.Close(); forget(fp); exit(op, errRes(err)) }()
	if err = gofile.Unlock(fp); err != nil {
		return gofile.NewLockError(err.Error())
	}
	return nil
}

func OpenToReadContext(ctx context.Context, retryDelay time.Duration, path string) (*os.File, error) {
	return openContext(ctx, retryDelay, path, os.O_RDONLY, "openr", gofile.TryLockSH)
}

func OpenToUpdateContext(ctx context.Context, retryDelay time.Duration, path string) (*os.File, error) {
	return openContext(ctx, retryDelay, path, os.O_RDWR, "openw", gofile.TryLockEX)
}

func openContext(ctx context.Context, retryDelay time.Duration, path string, flag int, opname string, try func(*os.File) error) (*os.File, error) {
	op, d := enter(opname, path, "")
	if d.Inject != nil {
		exit(op, errRes(d.Inject))
		return nil, gofile.NewIOError((&os.PathError{Op: "open", Path: path, Err: d.Inject}).Error())
	}
	fp, err := openFile(path, flag)
	if err != nil {
		exit(op, "err")
		return nil, err
	}
	note(fp, path)
	exit(op, "ok")

	// gofile.lockContext
	fail := func(e error) (*os.File, error) { _ = fp.Close(); forget(fp); return fp, e }
	if ctx.Err() != nil {
		if ctx.Err() == context.Canceled {
			return fail(gofile.NewContextCanceled(ctx.Err().Error()))
		}
		return fail(gofile.NewContextDone(ctx.Err().Error()))
	}
	for {
		lop, ld := enter("trylock", path, opname)
		var lerr error
		if ld.Inject != nil {
			lerr = ld.Inject
		} else {
			lerr = try(fp)
		}
		if lerr == nil {
			exit(lop, "ok")
			return fp, nil
		}
		exit(lop, "busy")
		select {
		case <-ctx.Done():
			if ctx.Err() == context.Canceled {
				return fail(gofile.NewContextCanceled(ctx.Err().Error()))
			}
			return fail(gofile.NewTimeoutError(fp.Name()))
		case <-After(retryDelay):
			// try again
		}
	}
}

// After = time.After at a retry wait. Under a controller the wait is a scheduling point; the controller
// decides whether the retry delay elapses (returns a fired channel) or the wait timeout fires first (the
// controller has then already expired the caller's context; a channel that never fires is returned).
func After(d time.Duration) <-chan time.Time {
	op, dec := enter("wait", "", "")
	if op == nil {
		return time.After(d)
	}
	if dec.Real {
		exit(op, "real-time")
		return time.After(d)
	}
	ch := make(chan time.Time, 1)
	if !dec.Timeout {
		ch <- time.Time{}
	}
	exit(op, map[bool]string{false: "retry", true: "timeout"}[dec.Timeout])
	return ch
}

func WithTimeout(parent context.Context, d time.Duration) (context.Context, context.CancelFunc) {
	if C != nil {
		if ctx, cancel, ok := C.WithTimeout(parent, d); ok {
			return ctx, cancel
		}
	}
	return context.WithTimeout(parent, d)
}

func Truncate(fp *os.File, size int64) error {
	op, d := enter("truncate", name(fp), "")
	if d.Inject != nil {
		exit(op, errRes(d.Inject))
		return &os.PathError{Op: "truncate", Path: fp.Name(), Err: d.Inject}
	}
	err := fp.Truncate(size)
	exit(op, errRes(err))
	return err
}

func Seek(fp *os.File, offset int64, whence int) (int64, error) {
	return fp.Seek(offset, whence)
}

func Write(fp *os.File, b []byte) (int, error) {
	op, d := enter("write", name(fp), "")
	if d.Inject != nil {
		exit(op, errRes(d.Inject))
		return 0, &os.PathError{Op: "write", Path: fp.Name(), Err: d.Inject}
	}
	n, err := fp.Write(b)
	exit(op, errRes(err))
	return n, err
}

// FileClose = (*os.File).Close without unlocking (lib/action/run.go closes the --out file this way).
func FileClose(fp *os.File) error {
	op, d := enter("fclose", name(fp), "")
	if d.Inject != nil {
		exit(op, errRes(d.Inject))
		return &os.PathError{Op: "close", Path: fp.Name(), Err: d.Inject}
	}
	err := fp.Close()
	forget(fp)
	exit(op, errRes(err))
	return err
}

func name(fp *os.File) string {
	if fp == nil {
		return ""
	}
	return fp.Name()
}
