package vfs

import (
	"context"
	"fmt"
	"os"
	"runtime"
	"strconv"
	"strings"
	"sync"
	"sync/atomic"
	"syscall"
	"time"
)

// Process mode: a real csvq process built through the overlay is steered by environment variables.
//
//	VERIF_TRACE=<file>        append one line per point: "<k> <name> <path> <path2> -> <result>"
//	VERIF_CRASH_AT=<k>        SIGKILL this process immediately before point k is performed
//	VERIF_SIGNAL_AT=<k>:<SIG> deliver SIG (INT|TERM|QUIT|HUP) to this process before point k and wait until
//	                          the Go runtime has delivered it to signal.Notify channels
//	VERIF_POLL_POINTS=1       every look at the context's cancellation (ctx.Err() in lib/query) is a point too
//	VERIF_FAIL_AT=<k>:<ERRNO> make point k fail with the errno (EACCES ENOENT EISDIR EROFS ENOSPC EIO EBADF EMFILE)
//
// Points are numbered from 1 in program order.
type procController struct {
	mu      sync.Mutex
	k       int
	trace   *os.File
	crashAt int
	sigAt   int
	sig     syscall.Signal
	sig2At  int
	sig2    syscall.Signal
	failAt  int
	failErr syscall.Errno
	last    map[*Op]int
}

var errnos = map[string]syscall.Errno{
	"EACCES": syscall.EACCES, "ENOENT": syscall.ENOENT, "EISDIR": syscall.EISDIR, "EROFS": syscall.EROFS,
	"ENOSPC": syscall.ENOSPC, "EIO": syscall.EIO, "EBADF": syscall.EBADF, "EMFILE": syscall.EMFILE, "EEXIST": syscall.EEXIST,
	"EPERM": syscall.EPERM, "ENOTDIR": syscall.ENOTDIR,
}

var sigs = map[string]syscall.Signal{"INT": syscall.SIGINT, "TERM": syscall.SIGTERM, "QUIT": syscall.SIGQUIT, "HUP": syscall.SIGHUP}

func init() {
	tr, cr, sg, fl := os.Getenv("VERIF_TRACE"), os.Getenv("VERIF_CRASH_AT"), os.Getenv("VERIF_SIGNAL_AT"), os.Getenv("VERIF_FAIL_AT")
	sg2 := os.Getenv("VERIF_SIGNAL2_AT") // a second signal at a later point
	if tr == "" && cr == "" && sg == "" && fl == "" {
		return
	}
	PollPoints = os.Getenv("VERIF_POLL_POINTS") == "1"
	pc := &procController{last: map[*Op]int{}}
	if tr != "" {
		pc.trace, _ = os.OpenFile(tr, os.O_CREATE|os.O_WRONLY|os.O_APPEND, 0644)
	}
	pc.crashAt, _ = strconv.Atoi(cr)
	if p := strings.SplitN(sg, ":", 2); len(p) == 2 {
		pc.sigAt, _ = strconv.Atoi(p[0])
		pc.sig = sigs[p[1]]
	}
	if p := strings.SplitN(sg2, ":", 2); len(p) == 2 {
		pc.sig2At, _ = strconv.Atoi(p[0])
		pc.sig2 = sigs[p[1]]
	}
	if p := strings.SplitN(fl, ":", 2); len(p) == 2 {
		pc.failAt, _ = strconv.Atoi(p[0])
		pc.failErr = errnos[p[1]]
	}
	C = pc
}

func (pc *procController) Enter(op *Op) Decision {
	pc.mu.Lock()
	pc.k++
	k := pc.k
	pc.last[op] = k
	pc.mu.Unlock()
	if k == pc.crashAt {
		if pc.trace != nil {
			fmt.Fprintf(pc.trace, "%d %s %s %s -> KILLED-BEFORE\n", k, op.Name, op.Path, op.Path2)
		}
		_ = syscall.Kill(os.Getpid(), syscall.SIGKILL)
		select {} // never continue
	}
	if (k == pc.sigAt && pc.sig != 0) || (k == pc.sig2At && pc.sig2 != 0) {
		sig := pc.sig
		if k == pc.sig2At && pc.sig2 != 0 {
			sig = pc.sig2
		}
		// No notifier of our own is registered: whether the signal is caught at all is the application's
		// business. kill(2) to oneself delivers the signal to the calling thread before it returns, so the
		// Go runtime has queued it (or the default action has ended the process) when we continue.
		seen := atomic.LoadInt32(&signalsSeen)
		_ = syscall.Kill(os.Getpid(), sig)
		// let the application's own handler goroutine run (it cancels the context): csvq's handler builds its
		// SignalReceived error (SignalSeen) right before it cancels. Waiting for that, not for a fixed time, keeps
		// "delivered before point k" true on a loaded machine. An application that does not catch the signal has
		// been ended by it; one that handles it otherwise is given 60 s (two seconds were not enough for the handler goroutine
		// to be scheduled on a machine at load average 100: the run then committed and ended normally).
		// (bounded by elapsed time, not by iterations: on a loaded machine one short sleep can take milliseconds.)
		// csvq's handler takes ONE signal: after it has seen one, a further signal only fills the notifier's channel,
		// nobody will report it, and there is nothing to wait for.
		if seen == 0 {
			for start := time.Now(); atomic.LoadInt32(&signalsSeen) == seen && time.Since(start) < 60*time.Second; {
				runtime.Gosched()
				time.Sleep(100 * time.Microsecond)
			}
		}
		for i := 0; i < 100; i++ {
			runtime.Gosched()
		}
		time.Sleep(2 * time.Millisecond)
	}
	if k == pc.failAt && pc.failErr != 0 {
		return Decision{Inject: pc.failErr}
	}
	return Decision{Real: true}
}

var signalsSeen int32

// SignalSeen is called by the application's signal handler (through lib/query.NewSignalReceived).
func SignalSeen() { atomic.AddInt32(&signalsSeen, 1) }

func (pc *procController) Exit(op *Op, result string) {
	pc.mu.Lock()
	k := pc.last[op]
	delete(pc.last, op)
	pc.mu.Unlock()
	if pc.trace != nil {
		fmt.Fprintf(pc.trace, "%d %s %s %s -> %s\n", k, op.Name, op.Path, op.Path2, result)
	}
}

func (pc *procController) WithTimeout(parent context.Context, d time.Duration) (context.Context, context.CancelFunc, bool) {
	return nil, nil, false
}
