package vfs

import (
	"os"
	"runtime"
	"sync"
)

// open-file bookkeeping: which files did instrumented code open and not yet close (used by controllers to
// model a process death: the kernel closes the descriptors, nothing else happens).
var (
	trackMu sync.Mutex
	openFPs = map[*os.File]openRec{}
)

type openRec struct {
	Path string
	Gid  int64
}

func note(fp *os.File, path string) {
	if C == nil {
		return
	}
	trackMu.Lock()
	openFPs[fp] = openRec{Path: path}
	trackMu.Unlock()
}

func forget(fp *os.File) {
	if C == nil {
		return
	}
	trackMu.Lock()
	delete(openFPs, fp)
	trackMu.Unlock()
}

// OpenFiles lists the tracked open files (path, opener goroutine).
func OpenFiles() map[*os.File]openRec {
	trackMu.Lock()
	defer trackMu.Unlock()
	m := make(map[*os.File]openRec, len(openFPs))
	for k, v := range openFPs {
		m[k] = v
	}
	return m
}

func (r openRec) PathOf() string { return r.Path }
func (r openRec) GidOf() int64   { return r.Gid }

// ForgetAll drops the bookkeeping (between executions).
func ForgetAll() {
	trackMu.Lock()
	openFPs = map[*os.File]openRec{}
	trackMu.Unlock()
}

// goid parses the current goroutine id from the stack header ("goroutine 123 [").
func goid() int64 {
	var buf [40]byte
	n := runtime.Stack(buf[:], false)
	var id int64
	for i := len("goroutine "); i < n; i++ {
		c := buf[i]
		if c < '0' || c > '9' {
			break
		}
		id = id*10 + int64(c-'0')
	}
	return id
}

// Goid exposes the caller's goroutine id to controllers.
func Goid() int64 { return goid() }
